#!/bin/bash
# tools/harmless.sh <dir with patch.diff> : apply a property-preserving change to a scratch copy of
# /repo and run every quick check against it; every check must exit 0 (no false alarm).
set -u
DIR="$(realpath "$1")"
VERIF="$(cd "$(dirname "$0")/.." && pwd)"
SCR="$(mktemp -d /tmp/dsim_harmless.XXXXXX)"
trap 'rm -rf "$SCR"' EXIT
rsync -a --exclude .git --exclude __pycache__ /repo/ "$SCR/"
( cd "$SCR" && patch -p1 -s < "$DIR/patch.diff" ) || { echo "PATCH-FAILED"; exit 3; }
[ -n "${HARMLESS_NO_TESTS:-}" ] || T=$(cd "$SCR" && PYTHONPATH="$SCR" timeout 900 /venv/bin/python -m pytest -q -p no:cacheprovider --timeout=900 2>&1 | tail -1)
echo "tests: ${T:-skipped}"
bad=0
for c in ${HARMLESS_CHECKS:-C03 C04 C05 C06 C07 C10 C13 C14 C15 C18 C20}; do
  out=$(cd "$VERIF" && DSIM_REPO="$SCR" ./check "$c" --tier quick --no-evidence ${HARMLESS_ARGS:-} 2>&1); rc=$?
  if [ $rc -ne 0 ]; then bad=1; echo "ALARM $c rc=$rc"; echo "$out" | grep -E "failing clauses|VIOLATION|HARNESS|clause=" | head -6 | sed "s#$SCR#<scratch>#g"; else echo "quiet $c"; fi
done
exit $bad
