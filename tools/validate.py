#!/venv/bin/python
"""Validate MANIFEST.json and every evidence file against the harness schemas."""
import glob
import json
import sys

import jsonschema

ok = True
man = json.load(open("/verif/MANIFEST.json"))
jsonschema.validate(man, json.load(open("/root/.vp/MANIFEST.schema.json")))
sch = json.load(open("/root/.vp/EVIDENCE.schema.json"))
for c in man["checks"]:
    p = c["evidence_file"] if c["evidence_file"].startswith("/") else "/verif/" + c["evidence_file"]
    try:
        ev = json.load(open(p))
        jsonschema.validate(ev, sch)
        assert ev["property_id"] == c["property_id"] and ev["level"] == c["level_claimed"]["category"]
        print("ok  %s tier=%s evaluations=%d distinct=%d wall=%.1fs" % (p, ev["tier"], ev["coverage"]["evaluations"], ev["coverage"]["distinct_nontrivial"], ev["wall_s"]))
    except Exception as e:  # noqa: BLE001
        ok = False
        print("BAD %s: %s" % (p, str(e)[:300]))
props = [json.loads(l)["id"] for l in open("/verif/properties.jsonl")]
claimed = {c["property_id"] for c in man["checks"]}
na = {e["property_id"] for e in man.get("not_applicable", [])}
for pid in props:
    if pid not in claimed and pid not in na:
        ok = False
        print("BAD property %s neither claimed nor not_applicable" % pid)
sys.exit(0 if ok else 1)
