#!/bin/bash
# tools/regressions.sh : re-introduce each repaired defect (reverse patch of its fix: commit) on a
# scratch copy and confirm that the property's quick check reports it again.
cd "$(dirname "$0")/.."
declare -A MAP=( [f146a5e]=C06 [1986faf]=C06 [b9fa37d]=C07 [3f258ae]=C03 [48f9cff]=C04 [c640501]=C20 [085ee4a]=C14 [ab28845]=C13 [c2a6aae]=C13 [eac39f0]=C13 )
for h in "${!MAP[@]}"; do
  c=${MAP[$h]}
  out=$(MUT_ARGS="${MUT_ARGS:-}" tools/mutant.sh mutants/revert_$h.patch $c 2>&1)
  if echo "$out" | grep -q "^VIOLATION"; then echo "REPORTED  revert_$h by $c: $(echo "$out" | grep 'failing clauses' | sed 's/^ *//' | cut -c1-150)"; else echo "NOT-REPORTED revert_$h by $c"; fi
done
