#!/bin/bash
# tools/mutant.sh <patch.diff> [--tests] <check id>...   (run from anywhere)
# Applies a patch to a scratch copy of /repo's working tree (never to /repo), optionally
# runs the repository's test-suite there, runs the given quick checks against the copy
# and removes the copy.  Exit code: 0 if at least one check reported a VIOLATION.
set -u
PATCH="$(realpath "$1")"; shift
TESTS=0
if [ "${1:-}" = "--tests" ]; then TESTS=1; shift; fi
VERIF="$(cd "$(dirname "$0")/.." && pwd)"
SCR="$(mktemp -d /tmp/dsim_mut.XXXXXX)"
trap 'rm -rf "$SCR"' EXIT
rsync -a --exclude .git --exclude __pycache__ /repo/ "$SCR/"
( cd "$SCR" && patch -p1 -s < "$PATCH" ) || { echo "PATCH-FAILED $PATCH"; exit 3; }
if [ $TESTS = 1 ]; then
  ( cd "$SCR" && PYTHONPATH="$SCR" /venv/bin/python -m pytest -q -p no:cacheprovider --timeout=900 -x 2>&1 | tail -1 )
fi
found=1
for c in "$@"; do
  out=$(cd "$VERIF" && DSIM_REPO="$SCR" ./check "$c" --tier quick --no-evidence ${MUT_ARGS:-} 2>&1)
  rc=$?
  echo "$out" | grep -E "^(C[0-9]+ tier|VIOLATION|  failing clauses|HARNESS-ERROR)" | sed "s#$SCR#<scratch>#g" | head -6
  echo "check=$c rc=$rc"
  if echo "$out" | grep -q "^VIOLATION"; then found=0; fi
done
exit $found
