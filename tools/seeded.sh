#!/bin/bash
# tools/seeded.sh <dir with patch.diff and demo.py> [check ids... | all]
# Confirms a seeded breakage (tests still pass, demo fails with / passes without the
# change) on a scratch copy of /repo and runs the quick checks against that copy.
set -u
DIR="$(realpath "$1")"; shift
CHECKS="${*:-all}"
if [ "$CHECKS" = "all" ]; then CHECKS="C03 C04 C05 C06 C07 C10 C13 C14 C15 C18 C20"; fi
VERIF="$(cd "$(dirname "$0")/.." && pwd)"
SCR="$(mktemp -d /tmp/dsim_seed.XXXXXX)"
trap 'rm -rf "$SCR"' EXIT
rsync -a --exclude .git --exclude __pycache__ /repo/ "$SCR/"
( cd "$SCR" && patch -p1 -s < "$DIR/patch.diff" ) || { echo "PATCH-FAILED"; exit 3; }
if [ -z "${SEED_NO_TESTS:-}" ]; then
T=$(cd "$SCR" && PYTHONPATH="$SCR" timeout 900 /venv/bin/python -m pytest -q -p no:cacheprovider --timeout=900 2>&1 | tail -1)
echo "tests_with_change: $T"
( cd "$DIR" && PYTHONPATH="$SCR" timeout 300 /venv/bin/python demo.py >/dev/null 2>&1 ); echo "demo_with_change_exit: $?"
( cd "$DIR" && PYTHONPATH=/repo timeout 300 /venv/bin/python demo.py >/dev/null 2>&1 ); echo "demo_without_change_exit: $?"
fi
for c in $CHECKS; do
  out=$(cd "$VERIF" && DSIM_REPO="$SCR" ./check "$c" --tier quick --no-evidence ${SEED_ARGS:-} 2>&1); rc=$?
  cl=$(echo "$out" | grep "failing clauses" | sed 's/^ *//' | cut -c1-200)
  echo "check=$c rc=$rc $(echo "$out" | grep -c '^VIOLATION') violation line(s) $cl"
done
