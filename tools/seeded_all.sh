#!/bin/bash
# tools/seeded_all.sh : run every seeded change against the quick tier of its own property's check
# (scratch copies, /repo untouched) and print one line per change: CAUGHT / MISSED.
cd "$(dirname "$0")/.."
n=0; c=0
for d in ${1:-seeded/*/}; do
  id=$(basename "$d"); prop=$(python3 -c "import json,sys; print(json.load(open(sys.argv[1]))[\"breaks_property\"])" "$d/meta.json")
  line=$(SEED_NO_TESTS=1 tools/seeded.sh "$d" "$prop" 2>&1 | tail -1)
  n=$((n+1))
  if echo "$line" | grep -q "rc=1"; then c=$((c+1)); echo "CAUGHT $id $line"; else echo "MISSED $id $line"; fi
done
echo "caught $c of $n"
