#!/venv/bin/python
"""Regenerate MANIFEST.json from the scenario modules (run from /verif)."""
import importlib
import json
import os
import sys

HERE = os.path.dirname(os.path.dirname(os.path.abspath(__file__)))
sys.path.insert(0, HERE)
sys.path.insert(0, "/repo")
from dsim.runner import CHECKS  # noqa: E402

NA = {
    "C01": "Convergence of one uninterrupted call is a pure function of its numerical input (objective, box, start, maxcor): no fault after which progress must be re-established, no schedule, crash point or history to search. Not a simulation target (DESIGN 5).",
    "C02": "Box feasibility of evaluated points is decided by rounding events fixed by the numerical input of one call; nothing to schedule or inject. Its recovery consequence (a returned/reported x must be accepted as a restart point) is decided under C06/C07.",
    "C08": "get_cauchy_point is a pure function of (x, g, box, memory); no schedule, fault, crash or history.",
    "C09": "subspace_minimization is a pure function of its arguments; no schedule, fault, crash or history.",
    "C11": "Stand-alone line_search is a pure function of its arguments; its interruption clause (evaluation cap => None or a strictly downhill step) is exercised at API level by C03.",
    "C12": "Differential comparison with SciPy's Fortran port over numerical inputs; no fault, crash, history or schedule for a simulator to control.",
    "C16": "The gradient mode is a configuration of one call and its failure mode (an iterate grazing a bound) is input-driven; the parts with history content (stencil evaluations counted, wrapper coherence in FD modes) are decided under C05 and C15.",
    "C17": "Equivalence of two uninterrupted runs over numerical inputs; the scaler's only history-dependent aspect (interaction with restart) is decided under C05/C14.",
    "C19": "Closed-form gradients of closed-form functions: pure functions of the input point.",
}


def main():
    checks = []
    for cid, modname in CHECKS.items():
        try:
            sc = importlib.import_module(modname)
        except ModuleNotFoundError:
            continue
        checks.append(
            {
                "property_id": cid,
                "quick_cmd": "./check %s --tier quick" % cid,
                "thorough_cmd": "./check %s --tier thorough" % cid,
                "evidence_file": "/verif/evidence/%s.json" % cid,
                "replay_cmd_template": "./check %s --replay {path}" % cid,
                "engine": "dsim",
                "level_claimed": {
                    "category": sc.LEVEL,
                    "text": sc.LEVEL_TEXT,
                    "design_ref": sc.DESIGN_REF,
                },
                "level_note": sc.LEVEL_NOTE,
                "technique": sc.TECHNIQUE,
            }
        )
    claimed = {c["property_id"] for c in checks}
    man = {
        "version": 1,
        "setup_cmd": "./check setup",
        "hooks": {
            "guard": "LBFGSB_VERIF",
            "enable": "no hook exists in /repo: every seam the simulator needs is public API (user callables, checkpoint argument, budgets, logger); checks import /repo's working tree through PYTHONPATH and replace module attributes for observation only, for the duration of the process",
            "baseline_off_cmd": "cd /repo && env -u LBFGSB_VERIF /venv/bin/python -m pytest -ra -q -p no:cacheprovider --timeout=900 --continue-on-collection-errors",
            "source_commits": [],
            "add_only": True,
        },
        "engines": [
            {
                "name": "dsim",
                "path": "dsim/",
                "serves_properties": sorted(claimed),
                "kind_free_text": "deterministic simulation with fault injection: seeded plans (problem, configuration, fault plan, schedule) executed against the real minimize_lbfgsb with simulated user callables, durable store, budgets, thread scheduler and log sink; oracles on the event history; delta-debugged replay files",
            }
        ],
        "checks": checks,
        "not_applicable": [{"property_id": k, "reason": v} for k, v in sorted(NA.items()) if k not in claimed],
        "notes": "Fixes of genuine defects found by these checks are 'fix:' commits in /repo and listed in known_findings.json (status fixed); defects recorded but not repaired are listed there with status known and printed as KNOWN-FINDING lines. See DESIGN.md.",
    }
    with open(os.path.join(HERE, "MANIFEST.json"), "w") as fh:
        json.dump(man, fh, indent=1)
        fh.write("\n")
    import jsonschema

    jsonschema.validate(man, json.load(open("/root/.vp/MANIFEST.schema.json")))
    print("MANIFEST.json: %d checks, %d not applicable" % (len(checks), len(man["not_applicable"])))


if __name__ == "__main__":
    main()
