"""Entry point (kept outside the package so that no module is loaded twice)."""
import sys

from dsim.runner import main

if __name__ == "__main__":
    sys.exit(main())
