"""Entry point (kept outside the package so that no module is loaded twice)."""
import sys
import warnings

# numerical warnings of the code under test / of the stub objectives are not verdicts
warnings.filterwarnings("ignore", category=RuntimeWarning)
warnings.filterwarnings("ignore", category=DeprecationWarning)

from dsim.runner import main  # noqa: E402

if __name__ == "__main__":
    sys.exit(main())
