"""Deterministic simulation with fault injection for antoinecollet5/lbfgsb.

See /verif/DESIGN.md.  Everything a run does is a pure function of its *plan*
(a JSON object) and of the code under /repo; a plan is a pure function of
(VERIF_SEED, check id, run index).
"""
