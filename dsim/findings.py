"""Discriminators of known findings (see known_findings.json).

A known finding suppresses a violation only when property, oracle clause AND
the discriminator named in its entry all match, so a different violation of the
same property is still reported.
"""

DISCRIMINATORS = {}


def disc(name):
    def deco(fn):
        DISCRIMINATORS[name] = fn
        return fn

    return deco


@disc("fd_gradient_nan_on_fixed_variable")
def _fd_degenerate(plan, viol):
    """Finite-difference gradient mode + a fixed variable (lb == ub): SciPy's differencing
    shrinks the step to zero, the gradient component is NaN, the loop is never entered and
    the placeholder message escapes."""
    w = viol.get("witness", {})
    return (
        plan.get("problem", {}).get("box") == "degenerate"
        and plan.get("cfg", {}).get("jac", "callable") != "callable"
        and w.get("message") == "START"
        and w.get("jac_has_nan") is True
    )


@disc("restart_with_gradient_scaler")
def _scaler_restart(plan, viol):
    """A checkpoint produced with a gradient scaler already holds s*f and s*g; the restart
    scales them again (and calls the scaler on the scaled gradient)."""
    w = viol.get("witness", {})
    return plan.get("cfg", {}).get("scaler") is not None and int(w.get("segment", 0)) >= 1


@disc("stopiteration_inside_fd_stencil")
def _stopiter_fd(plan, viol):
    """StopIteration raised by the objective while scipy's approx_derivative maps it over
    the stencil points ends that map silently (scipy.optimize._numdiff)."""
    w = viol.get("witness", {})
    return w.get("exception") == "StopIteration" and w.get("actor") == "fun" and w.get("fd_mode") is True
