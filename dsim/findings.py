"""Discriminators of known findings (see known_findings.json).

A known finding suppresses a violation only when property, oracle clause AND
the discriminator named in its entry all match, so a different violation of the
same property is still reported.
"""

DISCRIMINATORS = {}


def disc(name):
    def deco(fn):
        DISCRIMINATORS[name] = fn
        return fn

    return deco
