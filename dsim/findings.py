"""Discriminators of known findings (see known_findings.json).

A known finding suppresses a violation only when property, oracle clause AND
the discriminator named in its entry all match, so a different violation of the
same property is still reported.
"""

DISCRIMINATORS = {}


def disc(name):
    def deco(fn):
        DISCRIMINATORS[name] = fn
        return fn

    return deco


@disc("fd_gradient_nan_on_fixed_variable")
def _fd_degenerate(plan, viol):
    """Finite-difference gradient mode + a fixed variable (lb == ub): SciPy's differencing
    shrinks the step to zero, the gradient component is NaN, the loop is never entered and
    the placeholder message escapes."""
    w = viol.get("witness", {})
    return (
        plan.get("problem", {}).get("box") == "degenerate"
        and plan.get("cfg", {}).get("jac", "callable") != "callable"
        and w.get("message") == "START"
        and w.get("jac_has_nan") is True
    )


@disc("restart_with_gradient_scaler")
def _scaler_restart(plan, viol):
    """A checkpoint produced with a gradient scaler already holds s*f and s*g; the restart
    scales them again (and calls the scaler on the scaled gradient)."""
    w = viol.get("witness", {})
    return plan.get("cfg", {}).get("scaler") is not None and int(w.get("segment", 0)) >= 1


@disc("stopiteration_inside_fd_stencil")
def _stopiter_fd(plan, viol):
    """StopIteration raised by the objective while scipy's approx_derivative maps it over
    the stencil points ends that map silently (scipy.optimize._numdiff)."""
    w = viol.get("witness", {})
    return w.get("exception") == "StopIteration" and w.get("actor") == "fun" and w.get("fd_mode") is True


@disc("pair_restored_from_checkpoint_within_bound")
def _restored_pair(plan, viol):
    """Pairs carried over a restart are rebuilt as differences of reconstructed points: equal to the
    checkpoint's pairs only up to the reconstruct-by-differences bound (checked by the clause itself)."""
    w = viol.get("witness", {})
    return int(w.get("segment", 0)) >= 1 and int(w.get("restored", 0)) >= 1


@disc("rewrite_with_rejected_newest_pair")
def _rewrite_rejected(plan, viol):
    """update_fun_def rewrote the history and the pair (x_new, previous point) then fails the curvature
    test: the new point is not stored and the matrices are not rebuilt (they still describe the old objective)."""
    return viol.get("witness", {}).get("newest_rejected_at_switch") is True


@disc("stop_test_fires_right_after_rewrite")
def _rewrite_then_stop(plan, viol):
    """A stop test ends the run in the very iteration in which update_fun_def rewrote the history: the
    result is built from the rewritten but unfiltered history."""
    w = viol.get("witness", {})
    return w.get("stopped_right_after_rewrite") is True and w.get("where") == "result"


@disc("factorisation_breakdown_on_degenerate_memory")
def _factorisation_breakdown(plan, viol):
    """A run forced to go on after convergence (gtol = ftol = 0) keeps more pairs than there are
    variables, with curvatures s.y spread over more than ten orders of magnitude; the Cholesky factorisation of the middle matrix then breaks
    down (LinAlgError, or NaN -> ValueError) and the solver has no fallback (the reference code
    refreshes the memory in that case)."""
    w = viol.get("witness", {})
    exc = str(w.get("exception", ""))
    # more stored pairs than variables (S is rank deficient) and curvatures spread over > 1e10
    return (
        ("LinAlgError" in exc or "infs or NaNs" in exc)
        and int(w.get("pairs_in_last_state", 0)) + 1 > int(w.get("n", 10**9))
        and float(w.get("sy_spread_in_last_state", 0.0)) > 1e10
    )


@disc("restored_pair_annihilated_by_reconstruction")
def _restored_pair_annihilated(plan, viol):
    """Restart from a checkpoint holding a pair whose step is at rounding level: rebuilding the points
    by successive subtraction (K11) returns that pair with s.y <= 0 (typically s = 0 exactly), D gets a
    zero on its diagonal and the factorisation at start-up raises."""
    w = viol.get("witness", {})
    exc = str(w.get("exception", ""))
    return (
        ("LinAlgError" in exc or "infs or NaNs" in exc)
        and str(w.get("tag", "restart")).startswith("restart")
        and w.get("restored_pair_degenerate") is True
        and float(w.get("checkpoint_min_relative_step", 1.0)) <= 8 * 2.220446049250313e-16
    )

