"""Oracles shared by several checks (see DESIGN.md section 7)."""

from __future__ import annotations

import copy
import pickle

import numpy as np

from .world import EPS, Act, Store, snapshot

DOCUMENTED_MESSAGES = (
    "CONVERGENCE: NORM_OF_PROJECTED_GRADIENT_<=_PGTOL",
    "CONVERGENCE: REL_REDUCTION_OF_F_<=_FTOL",
    "CONVERGENCE: F_<=_TARGET",
    "STOP: TOTAL NO. of ITERATIONS REACHED LIMIT",
    "STOP: TOTAL NO. of f AND g EVALUATIONS EXCEEDS LIMIT",
    "STOP: USER CALLBACK",
    "ABNORMAL_TERMINATION_IN_LNSRCH",
)
MSG_ITER = DOCUMENTED_MESSAGES[3]


def fl(v):
    return None if v is None else float(v)


def pair_bounds(ck):
    """A-priori bound of the reconstruct-by-differences arithmetic (DESIGN 4.4)."""
    m = max(1, ck["sk"].shape[0])
    bs = 8 * m * EPS * (np.abs(ck["x"]) + np.sum(np.abs(ck["sk"]), axis=0))
    by = 8 * m * EPS * (np.abs(ck["jac"]) + np.sum(np.abs(ck["yk"]), axis=0))
    return bs, by


def pairs_close(new_sk, new_yk, ref_sk, ref_yk, ck):
    """Same count/order and elementwise within the reconstruction bound."""
    if new_sk.shape != ref_sk.shape or new_yk.shape != ref_yk.shape:
        return False, {"shape_new": list(new_sk.shape), "shape_ref": list(ref_sk.shape)}
    bs, by = pair_bounds(ck)
    ds = np.abs(new_sk - ref_sk)
    dy = np.abs(new_yk - ref_yk)
    tiny = np.finfo(float).tiny
    if (ds <= bs + tiny).all() and (dy <= by + tiny).all():
        return True, {}
    return False, {
        "max_ds_over_bound": float(np.max(ds / (bs + tiny))),
        "max_dy_over_bound": float(np.max(dy / (by + tiny))),
    }


def perturbed_checkpoint(blob, rng, scale=1.0):
    """Copy of a pickled checkpoint with rounding-size noise on its pairs."""
    ck = pickle.loads(blob)
    hi = ck.hess_inv
    sk = np.array(hi.sk, dtype=float, copy=True)
    yk = np.array(hi.yk, dtype=float, copy=True)
    if sk.size:
        us = rng.uniform(-2.0, 2.0, size=sk.shape) * scale
        uy = rng.uniform(-2.0, 2.0, size=yk.shape) * scale
        sk = sk + us * EPS * (np.abs(ck.x) + np.sum(np.abs(sk), axis=0))
        yk = yk + uy * EPS * (np.abs(ck.jac) + np.sum(np.abs(yk), axis=0))
    hi2 = type(hi)(sk, yk)
    ck2 = copy.copy(ck)
    ck2["hess_inv"] = hi2
    ck2["x"] = np.array(ck.x, copy=True)
    ck2["jac"] = np.array(ck.jac, copy=True)
    return ck2


def restart_once(problem, cfg, ck, maxiter, **kw):
    c = dict(cfg)
    c["maxiter"] = int(maxiter)
    c["callback"] = None
    return Act(problem, c, checkpoint=ck, **kw).run()


def garbage_direction(act, x_scale):
    """DESIGN 7.4: a search direction more than 1e6 times larger than the iterate itself means
    the quadratic model is numerically singular along it; what the line search then does is
    decided by the last bits (the comparison up to rounding is meaningless there)."""
    for t in act.ls_log:
        dn = t[3]
        if not np.isfinite(dn) or dn > 1e6 * max(1.0, x_scale):
            return True
    return False


def garbage_direction_last(act, x_scale):
    dn = act.ls_log[-1][3]
    return (not np.isfinite(dn)) or dn > 1e6 * max(1.0, x_scale)


def zero_evaluation_failure(searches, x_scale=1.0):
    """A line search that gave up before evaluating anything: its maximum feasible step was zero
    (a variable on a bound whose direction component is a rounding-level non-zero pointing outward)
    or the direction was not a descent direction. Whether that happens is decided by the last bit of
    one component of d (DESIGN 7.4), so runs that differ only there are not comparable."""
    # (also: a search direction that is exactly zero - the Cauchy and subspace points coincide with x
    # because every variable is blocked; one ulp on a bound decides that)
    tiny = 64.0 * EPS * max(1.0, x_scale)  # a direction at the rounding level of the iterate
    # only the provable cases: a component moving off the box from the bound it sits on (maximum
    # feasible step exactly zero) or a direction at rounding level; a search that refuses a
    # direction for another reason (not a descent direction) is NOT excused
    # (third provable case: the largest feasible step is one rounding below the initial unit step, so
    # the search refuses it at once - `near_cap`, computed by the interceptor from x, d and the box)
    return any(t[2] is None and ((t[0] == t[1] and len(t) > 5 and (t[5] or (len(t) > 6 and t[6]))) or t[3] <= tiny) for t in searches)


def raise_witness(act):
    """Witness of an activation that raised; for a restart, also what reconstruct-by-differences
    (K11) makes of the checkpoint's pairs, recomputed with the solver's own arithmetic: a step at
    rounding level can vanish when it is subtracted from a reconstructed point (K14)."""
    w = {"exception": repr(act.exc)[:300]}
    ck = getattr(act, "checkpoint", None)
    try:
        if ck is not None and np.asarray(ck.hess_inv.sk).size:
            m = int(act.cfg.get("maxcor", 10))
            sk = np.asarray(ck.hess_inv.sk, dtype=float)[-m:]
            yk = np.asarray(ck.hess_inv.yk, dtype=float)[-m:]
            xs, gs = [np.asarray(ck.x, dtype=float)], [np.asarray(ck.jac, dtype=float)]
            for s_i, y_i in zip(sk[::-1], yk[::-1]):
                xs.insert(0, xs[0] - s_i)
                gs.insert(0, gs[0] - y_i)
            sy_ck = np.sum(sk * yk, axis=1)
            sy_re = np.array([(xs[i + 1] - xs[i]).dot(gs[i + 1] - gs[i]) for i in range(len(xs) - 1)])
            w["restored_pair_degenerate"] = bool(np.any((sy_ck > 0) & ~(sy_re > 0)))
            w["checkpoint_min_relative_step"] = float(np.min(np.max(np.abs(sk), axis=1)) / max(float(np.max(np.abs(xs[-1]))), 1e-300))
    except Exception:  # noqa: BLE001 - diagnostics only
        pass
    return w


def compare_restart(problem, cfg, blob, x_ref, maxiter, pseed, stats, n_pert=5, ref_act=None, rel_step_tol=None, ref_searches_before=None):
    """DESIGN 7.2: is the restart as close to the reference as rounding allows?

    Returns (verdict, info): verdict in {"ok", "vacuous", "fail", "raised"}.
    """
    act = restart_once(problem, cfg, Store.loads(blob), maxiter)
    stats["activations"] += 1
    stats["events"] += act.n_events
    if act.result is None:
        return "raised", raise_witness(act), act
    x = np.asarray(act.result.x, dtype=float)
    xs_scale = float(np.max(np.abs(x_ref))) if x_ref.size and np.all(np.isfinite(x_ref)) else 1.0
    if garbage_direction(act, xs_scale) or (ref_act is not None and ref_act.ls_log and garbage_direction_last(ref_act, xs_scale)):
        stats["nj.garbage_direction"] += 1
        return "vacuous", {"reason": "search direction > 1e6 x iterate scale"}, act
    ref_new = []
    if ref_act is not None and ref_searches_before is not None:
        ref_new = ref_act.ls_log[int(ref_searches_before):]
    if zero_evaluation_failure(act.ls_log, xs_scale) != zero_evaluation_failure(ref_new, xs_scale) and ref_act is not None and ref_searches_before is not None:
        stats["nj.zero_step_knife_edge"] += 1
        return "vacuous", {"reason": "one of the two runs met a line search with a zero maximum step"}, act
    if x.shape != x_ref.shape:
        return "fail", {"shape": list(x.shape)}, act
    d = float(np.max(np.abs(x - x_ref))) if x.size else 0.0
    floor = 64.0 * EPS * max(1.0, float(np.max(np.abs(x_ref))))
    mask = np.ones(x.shape, dtype=bool)
    x_ref_full = x_ref
    if not np.isfinite(d):
        # non-finite components must sit at the same places with the same values; the finite ones are judged
        fin, fin_ref = np.isfinite(x), np.isfinite(x_ref)
        if not np.array_equal(fin, fin_ref) or not np.array_equal(x[~fin], x_ref[~fin_ref], equal_nan=True):
            return "fail", {"distance": d, "nonfinite_mismatch": True}, act
        stats["nj.nonfinite_components"] += 1
        if not fin.any():
            return "vacuous", {}, act
        mask = fin
        x, x_ref = x[mask], x_ref[mask]
        d = float(np.max(np.abs(x - x_ref)))
        floor = 64.0 * EPS * max(1.0, float(np.max(np.abs(x_ref))))
    if d <= floor:
        return "ok", {"distance": d}, act
    # calibrate: what does rounding-size noise on the checkpoint do at this state?
    rng = np.random.Generator(np.random.PCG64([int(pseed), 424242]))
    xs = [x]
    for _ in range(n_pert):
        a2 = restart_once(problem, cfg, perturbed_checkpoint(blob, rng), maxiter)
        stats["activations"] += 1
        stats["events"] += a2.n_events
        if a2.result is None:
            stats["nj.perturbed_restart_raised"] += 1
            continue  # this sample is lost, the comparison is not
        xp = np.asarray(a2.result.x, dtype=float)
        if xp.shape != mask.shape or not np.all(np.isfinite(xp[mask])):
            continue
        xs.append(xp[mask])
    spread = 0.0
    for i in range(len(xs)):
        for j in range(i + 1, len(xs)):
            spread = max(spread, float(np.max(np.abs(xs[i] - xs[j]))))
    step = float(np.max(np.abs((x_ref_full - pickle.loads(blob).x)[mask]))) if x.size else 0.0
    if rel_step_tol is None:
        # one-ulp differences of the trial points reach the iterate through the line-search
        # interpolation: amplified by about 1/h ~ 1e8 with finite-difference gradients, by the
        # conditioning of f, g with exact ones. Perturbing the stored pairs does not always
        # sample that (n = 1, a single pair), so a floor relative to the step is part of "rounding".
        rel_step_tol = 1e-9 if cfg.get("jac", "callable") == "callable" else 1e-6
    # rel_step_tol > 0 (comparisons more than one iteration ahead): a one-ulp difference of the
    # intermediate iterate is amplified by the conditioning of the problem before it reaches x
    tol = 1e3 * spread + floor + rel_step_tol * step
    info = {"distance": d, "spread": spread, "tolerance": tol}
    info["reference_step"] = step
    if d <= tol:
        if spread > 1e-3 * max(step, floor):
            stats["nj.vacuous_comparisons"] += 1
            return "vacuous", info, act
        return "ok", info, act
    # DESIGN 7.4: at the floating-point resolution of the objective (the reference iteration gained
    # a few ulps of f at most) whether a trial counts as "strictly lower" is decided by the last bit
    try:
        f_ck = float(pickle.loads(blob).fun)
        f_ref = None if ref_act is None or ref_act.result is None else float(ref_act.result.fun)
        f_res = float(act.result.fun)
        def at_resolution(fa):
            return fa is not None and np.isfinite(fa) and np.isfinite(f_ck) and abs(fa - f_ck) <= 16 * EPS * max(abs(f_ck), abs(fa))

        # both the uninterrupted iteration and the restarted one gain a few ulps of f at most
        if at_resolution(f_ref) and at_resolution(f_res):
            stats["nj.objective_resolution"] += 1
            info["reason"] = "the iteration changes f by a few ulps at most in both runs"
            return "vacuous", info, act
    except Exception:  # noqa: BLE001
        pass
    return "fail", info, act
