"""Problem families (the stubbed "user code" of the simulation).

Every problem is a pure function of its spec
``{"family", "n", "pseed", "box", "start"}``; nothing here draws from the
run generator or keeps state between evaluations.
"""

from __future__ import annotations

import numpy as np

FAMILIES = (
    "qp",
    "quartic",
    "softplus",
    "rosen",
    "cosine",
    "badscale",
    "rastrigin",
    "styblinski",
)
# only used where exact ties of the objective are the point (C03): restart comparisons "up to
# rounding" are meaningless on an objective that is itself rounded to single precision
QUANTISED = ("quantised",)
CONVEX = ("qp", "quartic", "softplus", "badscale")
BOXES = ("none", "boxed", "mixed", "tight", "degenerate")
STARTS = ("interior", "face", "vertex")


class Problem:
    __slots__ = ("spec", "n", "f", "g", "x0", "bounds", "lb", "ub")

    def __init__(self, spec, n, f, g, x0, bounds):
        self.spec = spec
        self.n = n
        self.f = f
        self.g = g
        self.x0 = x0
        self.bounds = bounds
        if bounds is None:
            self.lb = np.full(n, -np.inf)
            self.ub = np.full(n, np.inf)
        else:
            self.lb = bounds[:, 0].copy()
            self.ub = bounds[:, 1].copy()


def _spd(rng, n, cond):
    q, _ = np.linalg.qr(rng.standard_normal((n, n)))
    lam = np.exp(rng.uniform(0.0, np.log(cond), size=n)) if n > 1 else np.ones(1)
    if n > 1:
        lam[0], lam[-1] = 1.0, cond
    a = (q * lam) @ q.T
    return 0.5 * (a + a.T)


def _make_fg(family, n, rng):
    """Return (f, g, centre) with centre near the unconstrained minimiser."""
    if family in ("qp", "quartic", "softplus", "cosine", "badscale"):
        cond = float(10.0 ** rng.uniform(0.0, 4.0 if family in ("qp", "badscale") else 2.5))
        a = _spd(rng, n, cond)
        xs = rng.uniform(-2.0, 2.0, size=n)
        b = a @ xs
    if family == "qp":
        def f(x):
            return float(0.5 * x.dot(a @ x) - b.dot(x))

        def g(x):
            return a @ x - b

        return f, g, xs
    if family == "quartic":
        c = rng.uniform(0.1, 2.0, size=n)
        s = rng.uniform(-1.0, 1.0, size=n)

        def f(x):
            return float(0.5 * x.dot(a @ x) - b.dot(x) + 0.25 * np.sum(c * (x - s) ** 4))

        def g(x):
            return a @ x - b + c * (x - s) ** 3

        return f, g, xs
    if family == "softplus":
        w = rng.standard_normal((n, n))
        v = rng.uniform(-1.0, 1.0, size=n)

        def f(x):
            return float(
                0.5 * x.dot(a @ x) - b.dot(x) + np.sum(np.logaddexp(0.0, w @ x + v))
            )

        def g(x):
            z = w @ x + v
            sig = 0.5 * (1.0 + np.tanh(0.5 * z))
            return a @ x - b + w.T @ sig

        return f, g, xs
    if family == "cosine":
        amp = rng.uniform(0.5, 3.0, size=n)
        om = rng.uniform(1.0, 6.0, size=n)
        ph = rng.uniform(0.0, 2 * np.pi, size=n)

        def f(x):
            return float(0.5 * x.dot(a @ x) - b.dot(x) + np.sum(amp * np.cos(om * x + ph)))

        def g(x):
            return a @ x - b - amp * om * np.sin(om * x + ph)

        return f, g, xs
    if family == "badscale":
        dscale = 10.0 ** rng.uniform(-3.0, 3.0, size=n)

        def f(x):
            y = dscale * x
            return float(0.5 * y.dot(a @ y) - b.dot(y))

        def g(x):
            y = dscale * x
            return dscale * (a @ y - b)

        return f, g, xs / dscale
    if family == "quantised":
        # a smooth convex function whose value is delivered in single precision: consecutive trial
        # points frequently give exactly equal objective values (ties)
        cond = float(10.0 ** rng.uniform(0.0, 2.0))
        a = _spd(rng, n, cond)
        xs = rng.uniform(-2.0, 2.0, size=n)
        b = a @ xs

        def f(x):
            return float(np.float32(0.5 * x.dot(a @ x) - b.dot(x)))

        def g(x):
            return a @ x - b

        return f, g, xs
    if family == "rosen":
        def f(x):
            if x.size == 1:
                return float((1.0 - x[0]) ** 2)
            return float(
                np.sum(100.0 * (x[1:] - x[:-1] ** 2) ** 2 + (1.0 - x[:-1]) ** 2)
            )

        def g(x):
            if x.size == 1:
                return np.array([-2.0 * (1.0 - x[0])])
            out = np.zeros_like(x)
            d = x[1:] - x[:-1] ** 2
            out[:-1] = -400.0 * x[:-1] * d - 2.0 * (1.0 - x[:-1])
            out[1:] += 200.0 * d
            return out

        return f, g, np.ones(n)
    if family == "rastrigin":
        def f(x):
            return float(10.0 * x.size + np.sum(x * x - 10.0 * np.cos(2 * np.pi * x)))

        def g(x):
            return 2.0 * x + 20.0 * np.pi * np.sin(2 * np.pi * x)

        return f, g, np.zeros(n)
    if family == "styblinski":
        def f(x):
            return float(0.5 * np.sum(x ** 4 - 16.0 * x * x + 5.0 * x))

        def g(x):
            return 0.5 * (4.0 * x ** 3 - 32.0 * x + 5.0)

        return f, g, np.full(n, -2.9)
    raise ValueError(family)


def build_problem(spec) -> Problem:
    family = spec["family"]
    n = int(spec["n"])
    rng = np.random.Generator(np.random.PCG64([int(spec["pseed"]), 7919]))
    f, g, centre = _make_fg(family, n, rng)
    centre = np.asarray(centre, dtype=float)
    box = spec.get("box", "none")
    span = np.maximum(1.0, np.abs(centre))
    if box == "none":
        bounds = None
        lb = np.full(n, -np.inf)
        ub = np.full(n, np.inf)
    else:
        # box placed so that part of the unconstrained minimiser is outside
        shift = rng.uniform(-1.5, 1.5, size=n) * span
        half = rng.uniform(0.3, 2.0, size=n) * span
        if box == "tight":
            half = rng.uniform(1e-3, 5e-2, size=n) * span
        lb = centre + shift - half
        ub = centre + shift + half
        if box == "mixed":
            kind = rng.integers(0, 4, size=n)
            lb = np.where((kind == 1) | (kind == 3), -np.inf, lb)
            ub = np.where((kind == 2) | (kind == 3), np.inf, ub)
        if box == "degenerate":
            fixed = rng.random(n) < 0.4
            if not fixed.any():
                fixed[int(rng.integers(0, n))] = True
            ub = np.where(fixed, lb, ub)
        bounds = np.stack([lb, ub], axis=1)
    # start point
    start = spec.get("start", "interior")
    lo = np.where(np.isfinite(lb), lb, centre - 2.0 * span)
    hi = np.where(np.isfinite(ub), ub, centre + 2.0 * span)
    lo = np.minimum(lo, hi)
    u = rng.uniform(0.05, 0.95, size=n)
    x0 = lo + u * (hi - lo)
    if start in ("face", "vertex") and box != "none":
        pick = rng.random(n) < (0.4 if start == "face" else 1.1)
        if not pick.any():
            pick[int(rng.integers(0, n))] = True
        side = rng.random(n) < 0.5
        x0 = np.where(pick & side & np.isfinite(lb), lb, x0)
        x0 = np.where(pick & ~side & np.isfinite(ub), ub, x0)
    x0 = np.minimum(np.maximum(x0, lb), ub)
    return Problem(dict(spec), n, f, g, np.array(x0, dtype=float), bounds)


def draw_problem_spec(rng, families=FAMILIES, nmax=12, boxes=BOXES):
    family = str(rng.choice(list(families)))
    nmin = 2 if family == "rosen" else 1
    n = int(rng.integers(nmin, nmax + 1))
    if family == "rosen":
        n = min(n, 8)
    return {
        "family": family,
        "n": n,
        "pseed": int(rng.integers(0, 2**31 - 1)),
        "box": str(rng.choice(list(boxes))),
        "start": str(rng.choice(list(STARTS))),
    }
