"""Pair provenance against the event log (DESIGN 4.10, used by C13 and C18).

A *universe* is the chronological list of points the run visited together with
the gradient value(s) attached to each (what the gradient actor returned there,
times the scaling factor; or what the update actor rewrote it to).  The pairs
(sk, yk) of a state are genuine iff there is a chain of universe points
q_0 < q_1 < ... < q_m (chronological) with x(q_{i+1}) - x(q_i) == sk[i] and
g(q_{i+1}) - g(q_i) == yk[i] bit-for-bit.
"""

from __future__ import annotations

import numpy as np


class Universe:
    """Chronological list of visits; a point visited again is a new entry."""

    def __init__(self):
        self.pts = []  # (x array, [gradient arrays]) in order of first appearance of each visit
        self.index = {}  # x bytes -> positions of its visits (increasing)

    def add(self, x, g):
        xb = np.ascontiguousarray(x, dtype=float).tobytes()
        g = np.array(g, dtype=float, copy=True)
        visits = self.index.setdefault(xb, [])
        if visits and visits[-1] == len(self.pts) - 1:
            # evaluated twice in a row (line search trial then accepted point): one visit
            gs = self.pts[-1][1]
            if not any(h.tobytes() == g.tobytes() for h in gs):
                gs.append(g)
            return
        visits.append(len(self.pts))
        self.pts.append((np.array(x, dtype=float, copy=True), [g]))

    def set(self, x, g):
        """Rewrite: from now on the gradient attached to (every visit of) x is g."""
        xb = np.ascontiguousarray(x, dtype=float).tobytes()
        g = np.array(g, dtype=float, copy=True)
        visits = self.index.get(xb)
        if not visits:
            self.index[xb] = [len(self.pts)]
            self.pts.append((np.array(x, dtype=float, copy=True), [g]))
            return
        for pos in visits:
            self.pts[pos] = (self.pts[pos][0], [g])

    def pos(self, x):
        """Position of the latest visit of x (None if never visited)."""
        v = self.index.get(np.ascontiguousarray(x, dtype=float).tobytes())
        return v[-1] if v else None

    def first_pos(self, x):
        v = self.index.get(np.ascontiguousarray(x, dtype=float).tobytes())
        return v[0] if v else None


def _match(p, q, s, y):
    (xp, gps), (xq, gqs) = p, q
    if (xp - xq).tobytes() != s.tobytes():
        return False
    yb = y.tobytes()
    for gp in gps:
        for gq in gqs:
            if (gp - gq).tobytes() == yb:
                return True
    return False


def find_chain(uni, sk, yk, end_pos=None, stop_at=None):
    """Walk the pairs back from a chain end.

    Returns (positions newest-first, n_matched): the chain of universe positions
    q_m, q_{m-1}, ... that could be matched (n_matched pairs, counted from the
    newest).  ``end_pos``: required chain end (None = try all, newest first).
    ``stop_at``: a universe position; the walk stops when it reaches (any visit of) that
    point (the restart point).
    """
    m = sk.shape[0]
    stop_b = None if stop_at is None else uni.pts[stop_at][0].tobytes()
    ends = [end_pos] if end_pos is not None else list(range(len(uni.pts) - 1, -1, -1))
    best = ([], 0)
    best_rank = (-1, -1)
    for e in ends:
        if e is None:
            continue
        chain = [e]
        cur = e
        matched = 0
        for i in range(m - 1, -1, -1):
            if stop_b is not None and uni.pts[cur][0].tobytes() == stop_b:
                break
            nxt = None
            for q in range(cur - 1, -1, -1):
                if _match(uni.pts[cur], uni.pts[q], sk[i], yk[i]):
                    nxt = q
                    break
            if nxt is None:
                break
            chain.append(nxt)
            cur = nxt
            matched += 1
        if matched == m:
            return chain, matched
        reached = stop_b is not None and uni.pts[cur][0].tobytes() == stop_b
        # prefer chains that explain more pairs; among equals, one that reached the restart point
        rank = (matched, 1 if reached else 0)
        if rank > best_rank:
            best_rank = rank
            best = (chain, matched)
    return best
