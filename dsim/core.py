"""Seeding, plan (de)serialisation, shrinking helpers shared by all checks."""

from __future__ import annotations

import copy
import json
import zlib

import numpy as np

from .world import DEFAULT_CFG


def rng_for(seed: int, check_id: str, index: int, stream: int = 0):
    """The one generator of run ``index`` of check ``check_id``."""
    ss = np.random.SeedSequence([int(seed), zlib.crc32(check_id.encode()), int(index), stream])
    return np.random.Generator(np.random.PCG64(ss))


def jdump(obj) -> str:
    # Python's float repr round-trips exactly, so a JSON plan replays bit-for-bit.
    return json.dumps(obj, sort_keys=True, default=_default)


def _default(o):
    if isinstance(o, np.integer):
        return int(o)
    if isinstance(o, np.floating):
        return float(o)
    if isinstance(o, np.bool_):
        return bool(o)
    if isinstance(o, np.ndarray):
        return o.tolist()
    if isinstance(o, bytes):
        return o.hex()
    raise TypeError(type(o))


def jclean(obj):
    return json.loads(jdump(obj))


def choice(rng, seq, p=None):
    seq = list(seq)
    i = int(rng.choice(len(seq), p=p))
    return seq[i]


# ----------------------------------------------------------------- configurations
def draw_cfg(rng, *, jac_modes=("callable",), small=True, allow_scaler=True, allow_target=True):
    """Swarm-style configuration: every knob drawn afresh for every run."""
    cfg = {}
    cfg["maxcor"] = int(rng.integers(1, 11))
    r = rng.random()
    if r < 0.55:
        cfg["maxls"] = int(rng.integers(1, 5))
    elif r < 0.8:
        cfg["maxls"] = int(rng.integers(5, 21))
    else:
        cfg["maxls"] = 20
    cfg["maxiter"] = int(rng.integers(1, 16)) if small else int(rng.integers(1, 60))
    cfg["maxfun"] = 15000
    cfg["ftol"] = float(choice(rng, [0.0, 1e-12, 1e-8, 1e-5, 1e-3]))
    cfg["gtol"] = float(choice(rng, [0.0, 1e-10, 1e-6, 1e-5, 1e-3]))
    cfg["eps_SY"] = float(choice(rng, [2.2e-16, 2.2e-16, 1e-8, 1e-2]))
    cfg["jac"] = choice(rng, jac_modes)
    if rng.random() < 0.15:
        cfg["args"] = True
    if rng.random() < 0.06:
        cfg["x0_dtype"] = "float32"
    if rng.random() < 0.12:
        cfg["env_reuse_buf"] = True
    if rng.random() < 0.12:
        cfg["env_scribble"] = True
    if rng.random() < 0.1:
        cfg["env_fun_buffer"] = True
    if rng.random() < 0.2:
        cfg["bounds_style"] = "list_none"
    if allow_scaler and rng.random() < 0.25:
        if rng.random() < 0.3:
            cfg["scaler"] = "packaged"
        else:
            cfg["scaler"] = {"const": float(10.0 ** rng.uniform(-3, 3))}
    return cfg


def maybe_long(rng, spec, cfg, p=0.08):
    """A share of the runs is larger and longer than the swarm's default (n up to 40,
    up to 80 iterations, memory up to 20): thresholds hidden behind sizes are reached too."""
    if rng.random() >= p:
        return False
    if spec.get("family") != "rosen":
        spec["n"] = int(rng.integers(13, 41))
    cfg["maxiter"] = int(rng.integers(30, 81))
    cfg["maxcor"] = int(rng.integers(1, 21))
    cfg["maxls"] = 20
    return True


def full_cfg(cfg):
    c = dict(DEFAULT_CFG)
    c.update(cfg)
    return c


# ------------------------------------------------------------------- minimisation
def generic_candidates(plan):
    """Simpler variants of a plan, most aggressive first (delta debugging moves)."""
    # drop faults
    for key in ("faults", "ops", "segments", "acts"):
        seq = plan.get(key)
        if isinstance(seq, list) and len(seq) > 0:
            if len(seq) > 1:
                for i in range(len(seq)):
                    q = copy.deepcopy(plan)
                    del q[key][i]
                    yield q
            if key in ("ops",) and len(seq) > 2:
                q = copy.deepcopy(plan)
                q[key] = seq[: len(seq) // 2]
                yield q
    # simplify the problem
    prob = plan.get("problem")
    if isinstance(prob, dict):
        if prob.get("n", 1) > 1:
            for n in sorted({1, 2, prob["n"] // 2, prob["n"] - 1}):
                if 1 <= n < prob["n"] and not (prob["family"] == "rosen" and n < 2):
                    q = copy.deepcopy(plan)
                    q["problem"]["n"] = n
                    yield q
        if prob.get("family") != "qp":
            q = copy.deepcopy(plan)
            q["problem"]["family"] = "qp"
            yield q
        if prob.get("box") != "none":
            q = copy.deepcopy(plan)
            q["problem"]["box"] = "none"
            yield q
            if prob.get("box") != "boxed":
                q = copy.deepcopy(plan)
                q["problem"]["box"] = "boxed"
                yield q
        if prob.get("start") != "interior":
            q = copy.deepcopy(plan)
            q["problem"]["start"] = "interior"
            yield q
    # reset configuration entries to their defaults
    cfg = plan.get("cfg")
    if isinstance(cfg, dict):
        for k in sorted(cfg):
            if k in DEFAULT_CFG and cfg[k] != DEFAULT_CFG[k] and k not in ("maxiter",):
                q = copy.deepcopy(plan)
                q["cfg"][k] = DEFAULT_CFG[k]
                yield q
            elif k not in DEFAULT_CFG:
                q = copy.deepcopy(plan)
                del q["cfg"][k]
                yield q
        if isinstance(cfg.get("maxiter"), int) and cfg["maxiter"] > 1:
            for v in sorted({1, 2, cfg["maxiter"] // 2, cfg["maxiter"] - 1}):
                if 0 < v < cfg["maxiter"]:
                    q = copy.deepcopy(plan)
                    q["cfg"]["maxiter"] = v
                    yield q
    # lower integer knobs declared shrinkable by the scenario
    for k in plan.get("_ints", []):
        v = plan.get(k)
        if isinstance(v, int) and v > 0:
            for w in sorted({0, 1, v // 2, v - 1}):
                if 0 <= w < v:
                    q = copy.deepcopy(plan)
                    q[k] = w
                    yield q
    # lower fault positions
    for key in ("faults",):
        seq = plan.get(key)
        if isinstance(seq, list):
            for i, f in enumerate(seq):
                at = f.get("at")
                if isinstance(at, int) and at > 1:
                    for w in sorted({1, at // 2, at - 1}):
                        if 1 <= w < at:
                            q = copy.deepcopy(plan)
                            q[key][i]["at"] = w
                            yield q


def shrink(plan, still_fails, candidates=generic_candidates, budget=200):
    """Greedy delta debugging; ``still_fails(plan)`` must be deterministic."""
    used = 0
    improved = True
    seen = {jdump(plan)}
    while improved and used < budget:
        improved = False
        for cand in candidates(plan):
            key = jdump(cand)
            if key in seen:
                continue
            seen.add(key)
            used += 1
            ok = False
            try:
                ok = still_fails(cand)
            except Exception:  # noqa: BLE001 - an invalid candidate is simply not kept
                ok = False
            if ok:
                plan = cand
                improved = True
                break
            if used >= budget:
                break
    return plan, used
