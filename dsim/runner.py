"""Seeded search driver: generates plans, runs them on all cores, judges, reports.

Exit codes: 0 = property held on everything explored (known findings are printed
as KNOWN-FINDING lines); 1 = VIOLATION (minimised, replay verified in a fresh
process); 2 = HARNESS-ERROR (never a verdict about the code under test).
"""

from __future__ import annotations

import argparse
import faulthandler
import hashlib
import importlib
import json
import multiprocessing
import os
import signal
import subprocess
import sys
import time
import traceback
from collections import Counter
from concurrent.futures import ProcessPoolExecutor, wait, FIRST_COMPLETED

VERIF = os.path.dirname(os.path.dirname(os.path.abspath(__file__)))

CHECKS = {
    "C03": "dsim.scenarios.c03",
    "C04": "dsim.scenarios.c04",
    "C05": "dsim.scenarios.c05",
    "C06": "dsim.scenarios.c06",
    "C07": "dsim.scenarios.c07",
    "C10": "dsim.scenarios.c10",
    "C13": "dsim.scenarios.c13",
    "C14": "dsim.scenarios.c14",
    "C15": "dsim.scenarios.c15",
    "C18": "dsim.scenarios.c18",
    "C20": "dsim.scenarios.c20",
}


from .world import ACTIVATION_DIGESTS, HarnessAbort  # noqa: E402


class PlanTimeout(HarnessAbort):
    pass


def _alarm(signum, frame):
    raise PlanTimeout()


def _assert_env():
    import lbfgsb

    repo = os.environ.get("DSIM_REPO", "/repo")
    if not os.path.realpath(lbfgsb.__file__).startswith(os.path.realpath(repo) + "/"):
        raise RuntimeError("lbfgsb imported from %s, expected %s" % (lbfgsb.__file__, repo))


def load_scenario(cid):
    return importlib.import_module(CHECKS[cid])


def _determinism_record(cid):
    p = os.path.join(VERIF, "evidence", "determinism_selftest.json")
    try:
        with open(p) as fh:
            d = json.load(fh)
        r = dict(d["results"].get(cid, {}))
        r["how"] = "same run indices executed twice: 16 workers / PYTHONHASHSEED=0 vs 3 workers / PYTHONHASHSEED=12345 in a fresh interpreter; run hashes (event digest, verdicts, coverage keys, counters) compared"
        r["at_unix"] = d.get("at_unix")
        return r
    except Exception:  # noqa: BLE001
        return {"note": "run ./check selftest-determinism to (re)generate evidence/determinism_selftest.json"}


def load_known():
    p = os.environ.get("DSIM_KNOWN_FINDINGS") or os.path.join(VERIF, "known_findings.json")
    if not os.path.exists(p):
        return []
    with open(p) as fh:
        return json.load(fh)["findings"]


def match_known(known, cid, viol, plan):
    """A violation is a known finding iff property, clause and discriminator match."""
    from . import findings

    for ent in known:
        if ent.get("status") != "known" or ent["property"] != cid:
            continue
        if ent["clause"] != viol["clause"]:
            continue
        pred = findings.DISCRIMINATORS[ent["discriminator"]]
        if pred(plan, viol):
            return ent
    return None


# ------------------------------------------------------------------------ worker
def _exec_one(cid, seed, tier, index, plan=None):
    from .core import rng_for, jclean

    sc = load_scenario(cid)
    if plan is None:
        plan = jclean(sc.gen(rng_for(seed, cid, index), tier, index))
    limit = int(getattr(sc, "PLAN_TIMEOUT", 300))
    signal.signal(signal.SIGALRM, _alarm)
    signal.alarm(limit)
    del ACTIVATION_DIGESTS[:]
    try:
        out = sc.execute(plan)
    finally:
        signal.alarm(0)
    h = hashlib.sha256()
    for rd, ed in ACTIVATION_DIGESTS:
        h.update((rd + "/" + ed + ";").encode())
    out["digest"] = "%s#%d:%s" % (out.get("digest", ""), len(ACTIVATION_DIGESTS), h.hexdigest()[:24])
    out["index"] = index
    out["plan"] = plan
    return out


def _worker(args):
    cid, seed, tier, indices = args
    faulthandler.dump_traceback_later(3600, exit=True)
    res = []
    for pos, i in enumerate(indices):
        try:
            out = _exec_one(cid, seed, tier, i)
            # keep the payload small: plans only for violations and samples
            keep_plan = bool(out.get("violations")) or i < 3
            res.append(
                {
                    "index": i,
                    "violations": out.get("violations", []),
                    "stats": dict(out.get("stats", {})),
                    "keys": list(out.get("keys", [])),
                    "digest": out.get("digest", ""),
                    "plan": out["plan"] if keep_plan else None,
                    "shape": out.get("shape"),
                    # what this worker call executed before (matters only if a result depends on history)
                    "prefix": list(indices[:pos]) if out.get("violations") else None,
                }
            )
        except PlanTimeout:
            res.append({"index": i, "harness_error": "plan timeout"})
            signal.alarm(0)
        except Exception:  # noqa: BLE001
            res.append({"index": i, "harness_error": traceback.format_exc()})
    faulthandler.cancel_dump_traceback_later()
    return res


# ------------------------------------------------------------------------ replay
def replay_file(path, quiet=False):
    with open(path) as fh:
        rep = json.load(fh)
    cid = rep["property"]
    for i in rep.get("prefix_indices") or []:
        # history of the worker that found it (only kept when the single plan did not reproduce)
        try:
            _exec_one(cid, rep.get("seed", 0), rep.get("tier", "quick"), int(i))
        except Exception:  # noqa: BLE001
            pass
    out = _exec_one(cid, rep.get("seed", 0), rep.get("tier", "quick"), rep.get("run_index", -1), plan=rep["plan"])
    clauses = sorted({v["clause"] for v in out.get("violations", [])})
    same_clause = rep["clause"] in clauses
    same_digest = out.get("digest", "") == rep.get("event_digest", "")
    print(
        "REPLAY property=%s clause=%s reproduced=%s digest_equal=%s digest=%s"
        % (cid, rep["clause"], same_clause, same_digest, out.get("digest", ""))
    )
    if not quiet:
        for v in out.get("violations", []):
            print("  clause=%s witness=%s" % (v["clause"], json.dumps(v.get("witness"), default=str)[:600]))
    if same_clause:
        print("VIOLATION property=%s replay=%s" % (cid, path))
        return 1 if same_digest else 3
    return 0


def _replay_verdict(pr):
    """Read the verdict of a fresh-process replay from its REPLAY line (an interpreter that died with
    an exception also exits 1: the exit status alone proves nothing)."""
    for ln in pr.stdout.splitlines():
        if ln.startswith("REPLAY "):
            if "reproduced=True" in ln:
                return 1 if "digest_equal=True" in ln else 3
            return 0
    return -1


# ------------------------------------------------------------------------- main
def run_check(cid, tier, seed, n_override=None, wall_override=None, workers=None, write_evidence=True):
    from .core import jdump, shrink, generic_candidates

    sc = load_scenario(cid)
    budget = sc.BUDGET[tier]
    n_plans = int(n_override if n_override is not None else budget["plans"])
    wall = float(wall_override if wall_override is not None else budget["wall"])
    workers = int(workers or os.environ.get("VERIF_WORKERS") or min(16, os.cpu_count() or 1))
    chunk = int(budget.get("chunk", 8))
    known = load_known()
    t0 = time.time()

    stats = Counter()
    keys = set()
    samples = []
    raw_viol = []  # (index, plan, violation)
    prefixes = {}
    harness_errors = []
    done = 0
    digest_all = hashlib.sha256()
    per_index = {}

    ctx = multiprocessing.get_context("fork")
    indices = list(range(n_plans))
    chunks = [indices[i : i + chunk] for i in range(0, len(indices), chunk)]
    pending = set()
    it = iter(chunks)
    stopped_early = False
    with ProcessPoolExecutor(max_workers=workers, mp_context=ctx) as ex:
        def submit_more():
            while len(pending) < workers * 2:
                if time.time() - t0 > wall:
                    return False
                c = next(it, None)
                if c is None:
                    return False
                pending.add(ex.submit(_worker, (cid, seed, tier, c)))
            return True

        submit_more()
        hard_deadline = t0 + wall + 1500
        while pending:
            fin, _ = wait(pending, timeout=5, return_when=FIRST_COMPLETED)
            if time.time() > hard_deadline:
                harness_errors.append("hard deadline exceeded; workers stuck")
                for f in pending:
                    f.cancel()
                for p in list(getattr(ex, "_processes", {}).values()):
                    try:
                        p.kill()
                    except Exception:  # noqa: BLE001
                        pass
                break
            for f in fin:
                pending.discard(f)
                try:
                    res = f.result()
                except Exception as e:  # noqa: BLE001 - dead worker
                    harness_errors.append("worker died: %r" % (e,))
                    continue
                for r in res:
                    if "harness_error" in r:
                        harness_errors.append("run %d: %s" % (r["index"], r["harness_error"]))
                        continue
                    done += 1
                    stats.update(r["stats"])
                    keys.update(r["keys"])
                    per_index[r["index"]] = r["digest"]
                    if r["plan"] is not None and len(samples) < 3 and not r["violations"]:
                        samples.append({"run_index": r["index"], "plan": r["plan"], "shape": r.get("shape")})
                    for v in r["violations"]:
                        raw_viol.append((r["index"], r["plan"], v))
                        prefixes[r["index"]] = r.get("prefix") or []
            submit_more()
        if next(it, None) is not None:
            stopped_early = True
    for i in sorted(per_index):
        digest_all.update(("%d:%s;" % (i, per_index[i])).encode())

    # ---- classify
    known_hits = Counter()
    known_example = {}
    unknown = []
    raw_viol.sort(key=lambda t: (t[0], t[2]["clause"]))
    for idx, plan, v in raw_viol:
        ent = match_known(known, cid, v, plan)
        if ent is not None:
            known_hits[ent["id"]] += 1
            known_example.setdefault(ent["id"], (idx, plan, v, ent))
        else:
            unknown.append((idx, plan, v))

    exit_code = 0
    lines = []
    for kid in sorted(known_hits):
        idx, plan, v, ent = known_example[kid]
        lines.append(
            "KNOWN-FINDING: property=%s %s [%s; %d occurrence(s) this run, e.g. run_index=%d]"
            % (cid, ent["what"], kid, known_hits[kid], idx)
        )

    reported = []
    if unknown:
        by_clause = {}
        for idx, plan, v in unknown:
            by_clause.setdefault(v["clause"], (idx, plan, v))
        os.makedirs(os.path.join(VERIF, "replays"), exist_ok=True)
        for clause in sorted(by_clause)[:3]:
            idx, plan, v = by_clause[clause]

            def still_fails(cand, clause=clause):
                out = _exec_one(cid, seed, tier, idx, plan=cand)
                for w in out.get("violations", []):
                    if w["clause"] == clause and match_known(known, cid, w, cand) is None:
                        return True
                return False

            cands = getattr(sc, "candidates", generic_candidates)
            t_s = time.time()
            try:
                small, used = shrink(plan, still_fails, candidates=cands, budget=int(budget.get("shrink", 150)))
            except Exception:  # noqa: BLE001
                small, used = plan, -1
            out = _exec_one(cid, seed, tier, idx, plan=small)
            wv = [w for w in out.get("violations", []) if w["clause"] == clause and match_known(known, cid, w, small) is None]
            if not wv:
                small = plan
                out = _exec_one(cid, seed, tier, idx, plan=small)
                wv = [w for w in out.get("violations", []) if w["clause"] == clause and match_known(known, cid, w, small) is None]
            rep = {
                "property": cid,
                "clause": clause,
                "seed": seed,
                "tier": tier,
                "run_index": idx,
                "plan": small,
                "original_plan": plan,
                "shrink_executions": used,
                "shrink_wall_s": round(time.time() - t_s, 2),
                "witness": wv[0].get("witness") if wv else None,
                "event_digest": out.get("digest", ""),
            }
            name = "%s-%s-%d-%d.json" % (cid, clause.replace("/", "_"), seed, idx)
            path = os.path.join(VERIF, "replays", name)
            with open(path, "w") as fh:
                fh.write(jdump(rep))
            # replay in a fresh process: must reproduce clause and digest
            def fresh_replay():
                return subprocess.run(
                    [sys.executable, os.path.join(VERIF, "dsim_main.py"), cid, "--replay", path, "--quiet"],
                    capture_output=True,
                    text=True,
                    timeout=1200,
                    env=os.environ.copy(),
                )

            def verdict():
                try:
                    return _replay_verdict(fresh_replay())
                except subprocess.TimeoutExpired:
                    return -1

            rc_replay = verdict()
            note = ""
            if rc_replay != 1:
                # the minimisation ran inside this long-lived process: if the violation depends on
                # what the process executed before, fall back to the unminimised plan, then to the
                # plan preceded by what its worker had executed (in a fresh process each time)
                for mode in ("original", "with_history"):
                    rep2 = dict(rep, plan=plan, minimised=False)
                    # digest and witness of the unminimised plan (as seen in this process)
                    try:
                        out_o = _exec_one(cid, seed, tier, idx, plan=plan)
                        rep2["event_digest"] = out_o.get("digest", "")
                        wo = [w for w in out_o.get("violations", []) if w["clause"] == clause and match_known(known, cid, w, plan) is None]
                        rep2["witness"] = wo[0].get("witness") if wo else rep.get("witness")
                    except Exception:  # noqa: BLE001
                        pass
                    if mode == "with_history":
                        rep2["prefix_indices"] = prefixes.get(idx, [])
                    with open(path, "w") as fh:
                        fh.write(jdump(rep2))
                    rc_replay = verdict()
                    if rc_replay in (1, 3):
                        rep = rep2
                        note = " (unminimised%s; the outcome depends on what ran before in the process)" % (
                            ", replayed after run indices %s" % rep2["prefix_indices"] if mode == "with_history" else ""
                        )
                        break
            if rc_replay == 1 or (note and rc_replay == 3):
                lines.append("VIOLATION property=%s replay=%s" % (cid, path))
                lines.append("  clause=%s run_index=%d%s witness=%s" % (clause, idx, note, jdump(rep["witness"])[:800]))
                reported.append({"clause": clause, "replay": path, "run_index": idx})
                exit_code = 1
            else:
                harness_errors.append("nondeterministic: replay of %s did not reproduce (verdict=%d)" % (path, rc_replay))

    wall_s = time.time() - t0
    if harness_errors:
        exit_code = 1 if reported else 2
        for h in harness_errors[:3]:
            lines.append("HARNESS-ERROR %s %s" % (cid, h.strip().splitlines()[-1] if h.strip() else h))
        first_tb = next((h for h in harness_errors if "Traceback" in h), None)
        if first_tb:
            sys.stderr.write(first_tb[-3000:] + "\n")

    # ---- evidence
    if write_evidence:
        cov = {
            "evaluations": int(done),
            "distinct_nontrivial": int(len(keys)),
            "rule": sc.RULE,
            "samples": samples if samples else [{"note": "no violation-free run to sample"}],
            "exhaustive": False,
            "planned_plans": n_plans,
            "stopped_at_wall_budget": bool(stopped_early),
            "runs_per_hour": int(done / max(wall_s, 1e-9) * 3600),
            "activations": int(stats.get("activations", 0)),
            "activations_per_hour": int(stats.get("activations", 0) / max(wall_s, 1e-9) * 3600),
            "seeds": {"VERIF_SEED": seed, "run_indices": [0, n_plans - 1], "derivation": "PCG64(SeedSequence([VERIF_SEED, crc32(id), index]))"},
            "logical_time": {"events": int(stats.get("events", 0)), "line_steps": int(stats.get("line_steps", 0))},
            "faults_fired": {k[6:]: int(v) for k, v in sorted(stats.items()) if k.startswith("fault.")},
            "probes": {k[6:]: int(v) for k, v in sorted(stats.items()) if k.startswith("probe.")},
            "not_judged": {k[3:]: int(v) for k, v in sorted(stats.items()) if k.startswith("nj.")},
            "oracle_evaluations": {k[3:]: int(v) for k, v in sorted(stats.items()) if k.startswith("or.")},
            "components": sc.COMPONENTS,
            "batch_digest": digest_all.hexdigest(),
            "known_findings_hit": {k: int(v) for k, v in sorted(known_hits.items())},
            "violations_reported": reported,
            "workers": workers,
            "simulated_time": "logical: %d actor events, %d traced line steps inside lbfgsb/* (the code under test reads no clock)"
            % (int(stats.get("events", 0)), int(stats.get("line_steps", 0))),
            "determinism_selftest": _determinism_record(cid),
        }
        if any(k.startswith("sched:") for k in keys):
            cov["distinct_schedules"] = sum(1 for k in keys if k.startswith("sched:"))
        ev = {
            "property_id": cid,
            "tier": tier,
            "seed": int(seed),
            "level": sc.LEVEL,
            "coverage": cov,
            "assumptions": list(getattr(sc, "ASSUMPTIONS", [])),
            "wall_s": round(wall_s, 2),
            "violations": len(reported),
        }
        os.makedirs(os.path.join(VERIF, "evidence"), exist_ok=True)
        with open(os.path.join(VERIF, "evidence", "%s.json" % cid), "w") as fh:
            json.dump(ev, fh, indent=1, sort_keys=True, default=str)
            fh.write("\n")

    print(
        "%s tier=%s seed=%d runs=%d/%d distinct_nontrivial=%d wall=%.1fs known=%d unknown_violations=%d"
        % (cid, tier, seed, done, n_plans, len(keys), wall_s, sum(known_hits.values()), len(unknown))
    )
    if unknown:
        hist = Counter(v["clause"] for _, _, v in unknown)
        print("  failing clauses: %s" % ", ".join("%s x%d" % kv for kv in sorted(hist.items())))
    for ln in lines:
        print(ln)
    sys.stdout.flush()
    return exit_code


def main(argv=None):
    try:
        return _main(argv)
    except SystemExit:
        raise
    except BaseException:  # noqa: BLE001
        traceback.print_exc()
        print("HARNESS-ERROR uncaught exception in the harness")
        return 2


def _main(argv=None):
    ap = argparse.ArgumentParser(prog="check")
    ap.add_argument("check")
    ap.add_argument("--tier", default=os.environ.get("VERIF_TIER", "quick"), choices=["quick", "thorough"])
    ap.add_argument("--replay")
    ap.add_argument("--quiet", action="store_true")
    ap.add_argument("--n", type=int)
    ap.add_argument("--wall", type=float)
    ap.add_argument("--workers", type=int)
    ap.add_argument("--index", type=int, help="execute one run index and print its outcome")
    ap.add_argument("--no-evidence", action="store_true")
    a = ap.parse_args(argv)
    _assert_env()
    seed = int(os.environ.get("VERIF_SEED", "0") or 0)
    if a.check == "setup":
        from . import selftest

        return selftest.setup()
    if a.check == "selftest-determinism":
        from . import selftest

        return selftest.determinism(a.tier, seed)
    if a.check == "all":
        rc = 0
        for cid in CHECKS:
            rc = max(rc, run_check(cid, a.tier, seed, a.n, a.wall, a.workers, not a.no_evidence))
        return rc
    cid = a.check.upper()
    if cid not in CHECKS:
        print("unknown check %s" % a.check)
        return 2
    if a.replay:
        return replay_file(a.replay, quiet=a.quiet)
    if a.index is not None:
        out = _exec_one(cid, seed, a.tier, a.index)
        print(json.dumps({k: out[k] for k in ("index", "plan", "violations", "digest", "shape") if k in out}, indent=1, default=str))
        print({k: v for k, v in sorted(out.get("stats", {}).items())})
        return 1 if out.get("violations") else 0
    return run_check(cid, a.tier, seed, a.n, a.wall, a.workers, not a.no_evidence)
