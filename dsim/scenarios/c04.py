"""C04 - truthful termination report, budgets respected (DESIGN 4.2).

Stop causes are *injected*: a fault-free reference run tells where each limit
(maxiter, maxfun, ftarget, gtol, callback stop) would bind; variants then make
two or three of them bind at the same iteration (+-1), and histories restart
from the results with limits below the checkpoint's counters.
"""

from __future__ import annotations

from collections import Counter

import numpy as np

from ..core import choice, draw_cfg, maybe_long
from ..oracles import DOCUMENTED_MESSAGES, raise_witness
from ..problems import FAMILIES, build_problem, draw_problem_spec
from ..world import Act, Store, pgnorm

ID = "C04"
LEVEL = "exploration"
LEVEL_TEXT = (
    "Seeded exploration of the configuration lattice and of restart histories: every run's termination report "
    "is re-derived by the harness from the returned state (own projected-gradient computation, actor call "
    "counters, values the stop-criterion actors returned). Limits are placed from a reference run so that "
    "several bind at once; restarts use limits below the checkpoint's counters."
)
LEVEL_NOTE = (
    "Which of several simultaneously true reasons is reported is not judged. Un-injected exceptions on valid "
    "input are violations of this property (the only check that owns them)."
)
TECHNIQUE = "deterministic simulation: stop-cause injection (budgets, callback stop, target) x restart histories, truth-of-report oracle"
DESIGN_REF = "DESIGN.md 4.2"
BUDGET = {
    "quick": {"plans": 8000, "wall": 90, "chunk": 8},
    "thorough": {"plans": 60000, "wall": 900, "chunk": 16},
}
RULE = (
    "one plan = (problem, base configuration, variant seed); one evaluation = one activation of minimize_lbfgsb "
    "(variant of the limits, or a restart from a previous variant's result). Distinct non-trivial = "
    "hash(family, box, jac mode, which limits were set to bind, fresh/restart and restart kind, returned message, "
    "nit class, whether a line search failed), counted only when at least two limits were placed within one "
    "iteration of each other or the run is a restart."
)
COMPONENTS = {
    "real": ["lbfgsb.* (all modules)", "numpy", "scipy"],
    "stub": ["objective/gradient/callback/scaler/ftarget/gtol actors", "durable store", "limits placed from a reference run"],
}
ASSUMPTIONS = ["restart histories do not use a gradient scaler (scaler x restart is judged under C05)"]
PLAN_TIMEOUT = 600
MSG = DOCUMENTED_MESSAGES


def gen(rng, tier, index):
    spec = draw_problem_spec(rng, list(FAMILIES), nmax=10)
    jac_modes = ["callable"] * 7 + ["2-point", "3-point", None]
    cfg = draw_cfg(rng, jac_modes=jac_modes, allow_scaler=True)
    cfg["maxiter"] = int(rng.integers(3, 16))
    if rng.random() < 0.3:
        # a logger is attached and some display is requested (stop criteria may be reported there)
        cfg["logger"] = str(choice(rng, ["collect", "collect", "failing"]))
        cfg["iprint"] = int(choice(rng, [0, 1, 50, 99, 100, 101, 1000]))
    maybe_long(rng, spec, cfg)
    plan = {
        "problem": spec,
        "cfg": cfg,
        "variant_seed": int(rng.integers(0, 2**31 - 1)),
        "n_variants": 8 if tier == "quick" else 20,
        "n_restarts": 5 if tier == "quick" else 12,
        "_ints": ["n_variants", "n_restarts"],
    }
    return plan


def judge(act, cfg, problem, n0, nit0, add, tag, f_prev=None):
    """Truth of the termination report of one finished activation."""
    if act.result is None:
        if act.exc is not None:
            w = {"tag": tag, "exception": repr(act.exc)[:300]}
            # conditioning of the memory when it happened (from the last state the callback saw)
            if act.states:
                sn = act.states[-1]["snap"]
                if sn["sk"].size:
                    sy = np.abs(np.sum(sn["sk"] * sn["yk"], axis=1))
                    if sy.size and float(np.min(sy)) > 0:
                        w["sy_spread_in_last_state"] = float(np.max(sy) / np.min(sy))
                        w["pairs_in_last_state"] = int(sy.size)
                        w["n"] = int(sn["x"].size)
            w.update({k_: v_ for k_, v_ in raise_witness(act).items() if k_ != "exception"})
            add("raised_without_fault", w)
        return None
    res = act.result
    msg = str(res.message)
    w = {"tag": tag, "message": msg, "nit": int(res.nit), "nfev": int(res.nfev)}
    w["jac_has_nan"] = bool(np.isnan(np.asarray(res.jac, dtype=float)).any())
    if msg not in MSG:
        add("undocumented_message", w)
        return msg
    gtol = act.stop_values["gtol"]
    ftarget = act.stop_values["ftarget"]
    x = np.asarray(res.x, dtype=float)
    g = np.asarray(res.jac, dtype=float)
    if msg == MSG[0]:
        pg = pgnorm(x, g, problem.lb, problem.ub)
        # (a mathematically equivalent formula for the projected gradient may differ by a few ulps)
        if not pg <= gtol + 8 * np.finfo(float).eps * max(abs(gtol), pg):
            add("pgtol_message_false", dict(w, projected_gradient=pg, gtol=gtol))
    elif msg == MSG[2]:
        if ftarget is None or not (float(res.fun) / act.scale <= ftarget + 8 * np.finfo(float).eps * abs(ftarget)):
            add("target_message_false", dict(w, fun=float(res.fun), scale=act.scale, ftarget=ftarget))
    elif msg == MSG[3]:
        if not res.nit >= cfg["maxiter"]:
            add("iteration_limit_message_false", dict(w, maxiter=cfg["maxiter"]))
    elif msg == MSG[4]:
        if not res.nfev >= cfg["maxfun"]:
            add("evaluation_limit_message_false", dict(w, maxfun=cfg["maxfun"]))
    elif msg == MSG[5]:
        if act.fired["cb_true"] < 1:
            add("callback_message_false", w)
    elif msg == MSG[1] and f_prev is not None:
        f = float(res.fun)
        if np.isfinite(f) and np.isfinite(f_prev):
            red = (f_prev - f) / max(abs(f_prev), abs(f), 1.0)
            if not red <= cfg["ftol"]:
                add("ftol_message_false", dict(w, reduction=red, ftol=cfg["ftol"]))
    if bool(res.success) != (msg != MSG[6]):
        add("success_flag", dict(w, success=bool(res.success)))
    if res.nit > max(cfg["maxiter"], nit0):
        add("nit_exceeds_maxiter", dict(w, maxiter=cfg["maxiter"], nit_at_restart=nit0))
    if cfg["jac"] == "callable" and res.nfev > max(cfg["maxfun"], n0) + 1:
        add("nfev_exceeds_maxfun", dict(w, maxfun=cfg["maxfun"], n0=n0))
    for name in ("ftarget", "gtol"):
        if isinstance(cfg.get(name), dict) and act.counts[name] != 1:
            add("stop_criterion_not_called_once", dict(w, criterion=name, calls=int(act.counts[name])))
    return msg


def execute(plan):
    stats = Counter()
    keys = set()
    viol = []
    problem = build_problem(plan["problem"])
    spec = plan["problem"]
    base = dict(plan["cfg"])
    rng = np.random.Generator(np.random.PCG64([int(plan["variant_seed"]), 17]))

    def add(clause, witness):
        viol.append({"clause": clause, "witness": witness})

    # ---- fault-free reference with ample budgets: where would each limit bind?
    ref_cfg = dict(base)
    ref_cfg.update(callback={}, ftol=0.0, gtol=0.0, maxfun=15000, ftarget=None)
    A = Act(problem, ref_cfg).run()
    stats["activations"] += 1
    stats["events"] += A.n_events
    f_hist, nfev_hist, pg_hist = [], [], []
    if A.result is not None:
        judge(A, ref_cfg, problem, 1, 0, add, "reference")
        for rec in A.states:
            s = rec["snap"]
            f_hist.append(s["fun"] / A.scale)
            nfev_hist.append(s["nfev"])
            pg_hist.append(pgnorm(s["x"], s["jac"], problem.lb, problem.ub))
    else:
        judge(A, ref_cfg, problem, 1, 0, add, "reference")
    T = len(f_hist)
    results = []
    f_start = None
    first = next((e for e in A.events if e[0] == "fun"), None)
    if first is not None:
        import struct as _st

        f_start = _st.unpack("<d", first[3])[0]

    def last_f(act, start_f):
        return act.states[-1]["snap"]["fun"] if act.states else start_f

    def run_variant(c, bound, ck_blob=None, kind="fresh"):
        ck = None if ck_blob is None else Store.loads(ck_blob)
        c = dict(c)
        a = Act(problem, c, checkpoint=ck).run()
        stats["activations"] += 1
        stats["events"] += a.n_events
        n0 = 1 if ck is None else int(ck.nfev)
        nit0 = 0 if ck is None else int(ck.nit)
        if ck is None:
            first = next((e for e in a.events if e[0] == "fun"), None)
            start_f = None
            if first is not None:
                import struct

                start_f = struct.unpack("<d", first[3])[0] * a.scale
        else:
            start_f = float(ck.fun)
        f_prev = last_f(a, start_f) if c.get("callback") is not None else None
        msg = judge(a, c, problem, n0, nit0, add, "%s %s" % (kind, sorted(bound)), f_prev=f_prev)
        if a.result is not None:
            stats["probe.msg." + (msg or "none")[:28]] += 1
            stats["probe.ls_none"] += sum(1 for t in a.ls_log if t[2] is None)
            if len(bound) >= 2 or kind != "fresh":
                keys.add(
                    "|".join(
                        str(v)
                        for v in (
                            spec["family"],
                            spec["box"],
                            c["jac"],
                            ",".join(sorted(bound)),
                            kind,
                            (msg or "")[:20],
                            min(int(a.result.nit), 3),
                            any(t[2] is None for t in a.ls_log),
                        )
                    )
                )
        return a

    for v in range(int(plan["n_variants"])):
        c = dict(base)
        c["callback"] = {}
        bound = []
        j = int(rng.integers(0, T + 1)) if T else 0  # iteration at which the limits should bind
        def near(val):
            return max(0, int(val) + int(rng.integers(-1, 2)))
        which = [w for w in ("maxiter", "maxfun", "ftarget", "gtol", "cb", "ftol") if rng.random() < 0.45]
        if not which:
            which = [choice(rng, ["maxiter", "maxfun", "ftarget", "gtol", "cb"])]
        c["ftol"] = 0.0
        c["gtol"] = 0.0
        c["maxiter"] = max(T + 2, 3)
        c["maxfun"] = 15000
        if "maxiter" in which:
            c["maxiter"] = near(j)
            bound.append("maxiter")
        if "maxfun" in which:
            nf = nfev_hist[j - 1] if 1 <= j <= T else 1
            c["maxfun"] = max(1, near(nf))
            bound.append("maxfun")
        if "ftarget" in which and (T or f_start is not None):
            # j == 0: the target is already met at the start point (early exit before any gradient)
            fj = f_hist[min(max(j, 1), T) - 1] if (T and (j >= 1 or f_start is None)) else f_start
            tgt = float(choice(rng, [fj, np.nextafter(fj, np.inf), np.nextafter(fj, -np.inf), fj + 1e-9 * (1 + abs(fj))]))
            c["ftarget"] = {"callable": tgt} if rng.random() < 0.4 else tgt
            bound.append("ftarget")
        if "gtol" in which and T:
            pj = pg_hist[min(max(j, 1), T) - 1]
            gv = float(choice(rng, [pj, np.nextafter(pj, np.inf), np.nextafter(pj, -np.inf) if pj > 0 else pj]))
            c["gtol"] = {"callable": gv} if rng.random() < 0.4 else gv
            bound.append("gtol")
        if "cb" in which:
            c["callback"] = {"stop_at": max(1, near(j))}
            bound.append("cb")
        if "ftol" in which:
            c["ftol"] = float(choice(rng, [1e-12, 1e-6, 1e-3, 0.5]))
            bound.append("ftol")
        a = run_variant(c, bound)
        if a.result is not None:
            results.append((Store.dumps(a.result), c, int(a.result.nit), int(a.result.nfev), float(a.result.fun)))

    # ---- histories: restart from earlier results with limits below the checkpoint's counters
    if base.get("scaler") is None:
        for r in range(int(plan["n_restarts"])):
            if not results:
                break
            blob, c0, nit_ck, nfev_ck, fun_ck = results[int(rng.integers(0, len(results)))]
            c = dict(c0)
            c["callback"] = {}
            kind = choice(rng, ["maxiter_below", "maxiter_equal", "target_met", "maxfun_below", "continue", "continue_cb"])
            bound = [kind]
            c["maxiter"] = nit_ck + int(rng.integers(1, 4))
            c["maxfun"] = 15000
            c["ftarget"] = None
            c["gtol"] = 0.0
            c["ftol"] = 0.0
            if kind == "maxiter_below":
                c["maxiter"] = int(rng.integers(0, max(1, nit_ck)))
            elif kind == "maxiter_equal":
                c["maxiter"] = nit_ck
            elif kind == "target_met":
                tv = float(choice(rng, [fun_ck, np.nextafter(fun_ck, np.inf), fun_ck + 1.0]))
                c["ftarget"] = {"callable": tv} if rng.random() < 0.4 else tv
                if rng.random() < 0.5:
                    c["gtol"] = {"callable": 0.0}
            elif kind == "maxfun_below":
                c["maxfun"] = int(rng.integers(1, max(2, nfev_ck + 1)))
            elif kind == "continue_cb":
                c["callback"] = {"stop_at": int(rng.integers(1, 3))}
            a = run_variant(c, bound, ck_blob=blob, kind="restart")
            stats["fault.stop_restart"] += 1
            if a.result is not None and len(results) < 40:
                results.append((Store.dumps(a.result), c, int(a.result.nit), int(a.result.nfev), float(a.result.fun)))
    else:
        stats["nj.restart_with_scaler"] += 1
    shape = {"reference_iterations": T, "variants": int(plan["n_variants"])}
    return {"violations": viol, "stats": stats, "keys": keys, "digest": A.event_digest(), "shape": shape}
