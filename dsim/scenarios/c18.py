"""C18 - the returned operator is built from genuine pairs (DESIGN 4.10).

Pair provenance is judged against the event log of the simulated gradient actor
over histories: fresh runs, chains of stop/restart, every live callback state.
"""

from __future__ import annotations

from collections import Counter

import numpy as np
from scipy.optimize import LbfgsInvHessProduct

from lbfgsb.utils import extract_hess_inv_diag

from ..core import choice, draw_cfg
from ..oracles import pair_bounds
from ..problems import FAMILIES, build_problem, draw_problem_spec
from ..provenance import Universe, find_chain
from ..world import Act, Store, snapshot

ID = "C18"
LEVEL = "exploration"
LEVEL_TEXT = (
    "Seeded exploration of run histories (fresh runs, chains of up to 4 stop/restart segments, every live callback "
    "state, n up to 30, maxcor up to 12): the correction pairs of every operator are traced back, bit-for-bit and in "
    "chronological order, to gradient events of the simulated user code; pairs restored from a checkpoint are "
    "compared with the checkpoint's. The diagonal utility is compared with a dense inverse-BFGS recursion in long "
    "double for every operator met and for synthetic positive-curvature pair sets."
)
LEVEL_NOTE = (
    "Provenance is judged with a callable gradient only (in finite-difference modes the gradient is not a user value). "
    "Pairs restored at a restart are bit-exact only up to the reconstruct-by-differences bound: known finding K11."
)
TECHNIQUE = "deterministic simulation: pair provenance against the recorded event history over restart chains; dense reference recursion for the diagonal utility"
DESIGN_REF = "DESIGN.md 4.10"
BUDGET = {
    "quick": {"plans": 15000, "wall": 90, "chunk": 8},
    "thorough": {"plans": 100000, "wall": 900, "chunk": 16},
}
RULE = (
    "one plan = one history (chain of 1-4 segments) or one batch of 20 synthetic pair sets; one evaluation = one "
    "plan. Distinct non-trivial = hash(family, box, n class, maxcor, eps_SY, segment number, number of pairs, how "
    "many pairs were restored, whether the memory was reset or an update rejected in the segment, verdict), counted "
    "for operators holding at least one pair."
)
COMPONENTS = {
    "real": ["lbfgsb.* (all modules)", "lbfgsb.utils.extract_hess_inv_diag", "scipy LbfgsInvHessProduct"],
    "stub": ["objective/gradient/callback actors (their event log is the ground truth)", "durable store"],
}
ASSUMPTIONS = ["restart chains run without a gradient scaler (scaler x restart is known finding K07 under C05)"]


def gen(rng, tier, index):
    if rng.random() < 0.15:
        return {"kind": "synthetic", "sseed": int(rng.integers(0, 2**31 - 1)), "count": 20}
    if rng.random() < 0.15:
        # objective redefinition: every operator met afterwards must still hold only pairs with s.y > 0
        spec = draw_problem_spec(rng, list(FAMILIES), nmax=12)
        cfg = draw_cfg(rng, jac_modes=["callable"], allow_scaler=False)
        cfg["maxcor"] = int(rng.integers(2, 13))
        cfg["maxiter"] = int(rng.integers(4, 20))
        cfg["ftol"] = 0.0
        cfg["gtol"] = 0.0
        mode = str(choice(rng, ["arbitrary", "reweight"]))
        sw = {"mode": mode, "at": int(rng.integers(3, 10)), "seed": int(rng.integers(0, 2**31 - 1))}
        if mode == "arbitrary":
            sw.update(frac=float(rng.uniform(0.2, 0.9)), touch_newest=False)
        else:
            sw.update(lam=float(10.0 ** rng.uniform(-1, 1.5)), reg="cos")
        return {"kind": "rewrite", "problem": spec, "cfg": cfg, "switch": sw}
    spec = draw_problem_spec(rng, list(FAMILIES), nmax=30)
    cfg = draw_cfg(rng, jac_modes=["callable"] * 8 + ["2-point", "3-point", None], allow_scaler=True)
    if cfg["jac"] != "callable":
        if spec["box"] == "degenerate":
            spec["box"] = "boxed"
        spec["n"] = min(spec["n"], 12)
    cfg["maxcor"] = int(rng.integers(1, 13))
    cfg["maxiter"] = int(rng.integers(1, 20))
    cfg["ftol"] = float(choice(rng, [0.0, 1e-12]))
    cfg["gtol"] = float(choice(rng, [0.0, 1e-10]))
    nseg = int(choice(rng, [1, 1, 2, 3, 4]))
    stops = sorted(int(v) for v in rng.integers(1, cfg["maxiter"] + 1, size=nseg - 1)) if nseg > 1 else []
    if stops:
        cfg.pop("scaler", None)
    reduce_to = int(rng.integers(1, cfg["maxcor"] + 1)) if (stops and rng.random() < 0.3) else 0
    return {"kind": "history", "problem": spec, "cfg": cfg, "stops": stops, "reduce_maxcor": reduce_to, "_ints": ["reduce_maxcor"]}


def dense_inverse_bfgs(sk, yk, rho_op=None):
    """Dense matrix of the operator: two-loop recursion from the identity, long double.

    ``rho_op``: the operator's own 1/(s.y) (part of its definition: when s.y is the outcome of a
    cancellation, a more accurate product would describe another operator)."""
    ld = np.longdouble
    n = sk.shape[1]
    h = np.eye(n, dtype=ld)
    big = 1.0
    for i, (s, y) in enumerate(zip(sk, yk)):
        s = s.astype(ld)
        y = y.astype(ld)
        rho = 1.0 / (y @ s) if rho_op is None else ld(rho_op[i])
        v = np.eye(n, dtype=ld) - rho * np.outer(s, y)
        h = v @ h @ v.T + rho * np.outer(s, s)
        big = max(big, float(np.max(np.abs(h))), float(abs(rho) * np.max(np.abs(np.outer(s, y)))) ** 2)
    return h, big


def check_operator(hi, n, stats, add, where):
    sk = np.asarray(hi.sk, dtype=float)
    yk = np.asarray(hi.yk, dtype=float)
    d = extract_hess_inv_diag(hi)
    stats["or.diagonal_utility"] += 1
    if d.shape != (n,):
        add("diag_wrong_length", {"where": where, "shape": list(d.shape), "n": n})
        return
    if sk.shape[0] == 0:
        if not np.array_equal(d, np.ones(n)):
            add("diag_of_empty_operator_not_identity", {"where": where})
        return
    sy = np.sum(sk * yk, axis=1)
    if not (sy > 0).all():
        return  # reported by the curvature clause
    rho_op = getattr(hi, "rho", None)
    if rho_op is not None and (np.shape(rho_op) != (sk.shape[0],) or not np.all(np.isfinite(rho_op))):
        rho_op = None
    h, big = dense_inverse_bfgs(sk, yk, rho_op)
    h64 = np.array(h, dtype=float)
    if not np.all(np.isfinite(h64)) or big > 1e12 * max(1.0, float(np.max(np.abs(h64)))):
        stats["nj.ill_conditioned"] += 1
        return
    # "exactly the diagonal": a few hundred ulps of the largest magnitude met while building the dense
    # matrix (SciPy's own matvec and todense already differ in the last bits; the two-loop recursion itself loses about pairs x eps x that magnitude)
    tol = 1e-10 * big
    err = float(np.max(np.abs(d - np.diag(h64))))
    if not err <= tol:
        add("diag_differs_from_dense_operator", {"where": where, "max_abs_err": err, "tolerance": tol, "pairs": int(sk.shape[0]), "n": n})
    lam = float(np.min(np.linalg.eigvalsh(0.5 * (h64 + h64.T))))
    if not lam > -tol:
        add("operator_not_positive_definite", {"where": where, "lambda_min": lam})


def execute_synthetic(plan, stats, keys, viol):
    rng = np.random.Generator(np.random.PCG64([int(plan["sseed"]), 18]))

    def add(clause, w):
        viol.append({"clause": clause, "witness": w})

    for _ in range(int(plan["count"])):
        n = int(rng.integers(1, 31))
        m = int(rng.integers(1, 13))
        q, _ = np.linalg.qr(rng.standard_normal((n, n)))
        lam = np.exp(rng.uniform(0, np.log(100.0), size=n))
        a = (q * lam) @ q.T
        sk = rng.standard_normal((m, n)) * (10.0 ** rng.uniform(-3, 1))
        yk = sk @ a
        check_operator(LbfgsInvHessProduct(sk, yk), n, stats, add, "synthetic n=%d m=%d" % (n, m))
        keys.add("syn|%d|%d" % (n, m))


def execute_history(plan, stats, keys, viol):
    problem = build_problem(plan["problem"])
    spec = plan["problem"]
    cfg = dict(plan["cfg"])
    n = problem.n

    def add(clause, w):
        viol.append({"clause": clause, "witness": w})

    seg_no = [0]
    ck_snap = [None]

    def universe_of(act):
        uni = Universe()
        if ck_snap[0] is not None:
            uni.add(ck_snap[0]["x"], ck_snap[0]["jac"])
        for actor, j, xb, ob in act.events:
            if actor == "jac":
                x = np.frombuffer(xb, dtype=float)
                g = np.frombuffer(ob, dtype=float) * act.scale
                uni.add(x, g)
        return uni

    def judge(act, obj, where, maxcor):
        sk = np.asarray(obj.hess_inv.sk, dtype=float)
        yk = np.asarray(obj.hess_inv.yk, dtype=float)
        m = sk.shape[0] if sk.size else 0
        stats["or.operators"] += 1
        w = {"where": where, "segment": seg_no[0], "pairs": int(m)}
        if m > maxcor:
            add("more_than_maxcor_pairs", dict(w, maxcor=maxcor))
        if m == 0:
            check_operator(obj.hess_inv, n, stats, add, where)
            return
        sy = np.sum(sk * yk, axis=1)
        if not (sy > 0).all():
            add("pair_without_positive_curvature", dict(w, min_sy=float(np.min(sy))))
        if cfg["jac"] != "callable":
            # finite-difference mode: the gradients are not user values; count, curvature and the
            # diagonal utility are judged, provenance is not
            check_operator(obj.hess_inv, n, stats, add, where)
            keys.add("fd|%s|%s|%d|%d" % (spec["family"], cfg["jac"], maxcor, m))
            return
        uni = universe_of(act)
        stop = 0 if ck_snap[0] is not None else None
        chain, matched = find_chain(uni, sk, yk, stop_at=stop)
        restored = 0
        verdict = "genuine"
        if matched < m:
            if ck_snap[0] is not None and chain and uni.pts[chain[-1]][0].tobytes() == uni.pts[0][0].tobytes():
                # the rest was restored from the checkpoint: must be its most recent pairs
                restored = m - matched
                cs, cy = ck_snap[0]["sk"], ck_snap[0]["yk"]
                if restored > cs.shape[0]:
                    add("pair_not_genuine", dict(w, matched=matched, restored=restored, in_checkpoint=int(cs.shape[0])))
                    verdict = "bad"
                else:
                    rs, ry = sk[:restored], yk[:restored]
                    es, ey = cs[cs.shape[0] - restored :], cy[cy.shape[0] - restored :]
                    if rs.tobytes() == es.tobytes() and ry.tobytes() == ey.tobytes():
                        stats["probe.restored_pairs_bit_exact"] += 1
                        verdict = "restored_exact"
                    else:
                        bs, by = pair_bounds(ck_snap[0])
                        tiny = np.finfo(float).tiny
                        if (np.abs(rs - es) <= bs + tiny).all() and (np.abs(ry - ey) <= by + tiny).all():
                            add("restored_pair_not_bit_exact", dict(w, restored=restored, max_abs_ds=float(np.max(np.abs(rs - es))), max_abs_dy=float(np.max(np.abs(ry - ey)))))
                            verdict = "restored_rounded"
                        else:
                            add("restored_pair_wrong", dict(w, restored=restored))
                            verdict = "bad"
            elif ck_snap[0] is not None and act.up_log and not act.up_log[0][1]:
                stats["nj.knife_edge_reinsert"] += 1
                verdict = "nj"
            else:
                add("pair_not_genuine", dict(w, matched=matched))
                verdict = "bad"
        check_operator(obj.hess_inv, n, stats, add, where)
        reset = any(t[2] is None for t in act.ls_log)
        rej = any(not t[1] for t in act.up_log)
        keys.add(
            "|".join(
                str(v)
                for v in (spec["family"], spec["box"], min(n // 5, 5), maxcor, cfg["eps_SY"], seg_no[0], m, restored, reset, rej, verdict)
            )
        )

    cur_maxcor = [int(cfg["maxcor"])]

    def on_state(act, rec, state):
        judge(act, state, "callback state nit=%d" % int(state.nit), cur_maxcor[0])

    maxiters = list(plan["stops"]) + [int(cfg["maxiter"])]
    blob = None
    digests = []
    for si, mi in enumerate(maxiters):
        seg_no[0] = si
        c = dict(cfg)
        c["maxiter"] = int(mi)
        c["callback"] = {}
        if si == len(maxiters) - 1 and plan.get("reduce_maxcor") and blob is not None:
            c["maxcor"] = int(plan["reduce_maxcor"])
            stats["probe.restart_with_reduced_maxcor"] += 1
        cur_maxcor[0] = int(c["maxcor"])
        ck = None if blob is None else Store.loads(blob)
        ck_snap[0] = None if ck is None else snapshot(ck)
        a = Act(problem, c, checkpoint=ck, on_state=on_state).run()
        stats["activations"] += 1
        stats["events"] += a.n_events
        digests.append(a.event_digest())
        if a.result is None:
            stats["nj.run_raised"] += 1
            break
        if ck is not None:
            stats["fault.stop_restart"] += 1
        judge(a, a.result, "result", cur_maxcor[0])
        stats["probe.memory_reset"] += sum(1 for t in a.ls_log if t[2] is None)
        stats["probe.rejected_update"] += sum(1 for t in a.up_log if not t[1])
        blob = Store.dumps(a.result)
    return "|".join(digests)


def execute_rewrite(plan, stats, keys, viol):
    from . import c13
    from ..world import World

    problem = build_problem(plan["problem"])
    cfg = dict(plan["cfg"])
    sw = plan["switch"]
    info = {"fired": False}
    W = World(rewriter=c13.make_rewriter(problem, sw, info))
    maxcor = int(cfg["maxcor"])

    def judge(act, obj, where):
        if not info["fired"]:
            return
        sk = np.asarray(obj.hess_inv.sk, dtype=float)
        yk = np.asarray(obj.hess_inv.yk, dtype=float)
        m = sk.shape[0] if sk.size else 0
        stats["or.operators_after_redefinition"] += 1
        if m > maxcor:
            viol.append({"clause": "more_than_maxcor_pairs", "witness": {"where": where, "pairs": int(m), "maxcor": maxcor, "after_redefinition": True}})
        if m:
            sy = np.sum(sk * yk, axis=1)
            if not (sy > 0).all():
                viol.append({"clause": "pair_without_positive_curvature", "witness": {"where": where, "min_sy": float(np.min(sy)), "after_redefinition": sw["mode"]}})
            keys.add("rewrite|%s|%d|%d|%s" % (sw["mode"], maxcor, m, bool((sy > 0).all())))

    def on_state(act, rec, state):
        judge(act, state, "callback state nit=%d" % int(state.nit))

    c = dict(cfg)
    c["callback"] = {}
    c["update"] = {"mode": sw["mode"]}
    A = Act(problem, c, world=W, on_state=on_state).run()
    stats["activations"] += 1
    stats["events"] += A.n_events
    if A.result is None:
        stats["nj.run_raised"] += 1
        return A.event_digest()
    if info["fired"]:
        stats["fault.rewrite." + sw["mode"]] += 1
        judge(A, A.result, "result")
    return A.event_digest()


def execute(plan):
    stats = Counter()
    keys = set()
    viol = []
    if plan["kind"] == "rewrite":
        digest = execute_rewrite(plan, stats, keys, viol)
        shape = {"kind": "rewrite", "mode": plan["switch"]["mode"]}
    elif plan["kind"] == "synthetic":
        execute_synthetic(plan, stats, keys, viol)
        digest = "synthetic"
        shape = {"kind": "synthetic"}
    else:
        digest = execute_history(plan, stats, keys, viol)
        shape = {"kind": "history", "segments": len(plan["stops"]) + 1, "n": plan["problem"]["n"]}
    return {"violations": viol[:6], "stats": stats, "keys": keys, "digest": digest, "shape": shape}
