"""C13 - redefining the objective on the fly (DESIGN 4.7).

The update actor is the fault injector: at a seeded iteration it rewrites the
stored gradient history (rescale, re-weight a regulariser, arbitrary rewrites
breaking curvature for a subset of pairs) and the simulated objective switches
accordingly.  Oracles: identity is invisible; pairs are exact differences of the
rewritten history; curvature; newest point retained; matrices rebuilt; recovery
from the persisted state on the switched objective reproduces the next iterate.
"""

from __future__ import annotations

import pickle
from collections import Counter, deque

import numpy as np

from ..core import choice, draw_cfg
from ..oracles import compare_restart
from ..problems import FAMILIES, Problem, build_problem, draw_problem_spec
from ..provenance import Universe, find_chain
from ..world import Act, Store, World, snap_bytes, snapshot
from . import c10

ID = "C13"
LEVEL = "exploration"
LEVEL_TEXT = (
    "Seeded exploration of objective switches: the update actor rewrites the gradient history at a seeded iteration "
    "(identity, rescaling, re-weighting of a convex or non-convex regulariser, arbitrary rewrites that break the "
    "curvature condition for a subset of pairs); provenance of the pairs of every later state against the rewritten "
    "history is exact, the live matrices are checked against the dense BFGS recursion right after the switch, and a "
    "restart from the persisted state on the switched objective must reproduce the in-run next iterate."
)
LEVEL_NOTE = (
    "Identity runs are compared bit-for-bit (result, every callback state incl. message, event log of the other actors). "
    "Recovery equivalence uses the calibrated tolerance of DESIGN 7.2. Switches happen at update calls >= 2 (inside the loop)."
)
TECHNIQUE = "deterministic simulation: history-rewrite faults injected by the update actor at iteration k; provenance, live-matrix and recovery-equivalence oracles"
DESIGN_REF = "DESIGN.md 4.7"
BUDGET = {
    "quick": {"plans": 20000, "wall": 90, "chunk": 8},
    "thorough": {"plans": 80000, "wall": 900, "chunk": 16},
}
RULE = (
    "one plan = (problem, configuration, switch mode and iteration). Distinct non-trivial = hash(family, box, n, "
    "maxcor, eps_SY, mode, pairs stored at the switch, pairs dropped by the filter, whether the newest pair was "
    "rejected, verdict), counted only when the switch fired with at least one stored pair (identity: when the run "
    "made at least 2 iterations)."
)
COMPONENTS = {
    "real": ["lbfgsb.* (all modules; update branch of the main loop, make_X_and_G_respect_strong_wolfe, update_lbfgs_matrices)"],
    "stub": ["objective/gradient actors (switch objective at the rewrite)", "update actor (fault injector)", "callback actor + durable store"],
}
ASSUMPTIONS = ["rewrites other than identity are exercised without a gradient scaler"]
PLAN_TIMEOUT = 600


def gen(rng, tier, index):
    spec = draw_problem_spec(rng, list(FAMILIES), nmax=10)
    mode = str(choice(rng, ["identity", "identity", "identity_copy", "rescale", "reweight", "reweight", "arbitrary", "arbitrary"]))
    cfg = draw_cfg(rng, jac_modes=["callable"], allow_scaler=(mode in ("identity", "identity_copy")))
    cfg["maxiter"] = int(rng.integers(3, 16))
    if mode not in ("identity", "identity_copy"):
        cfg["ftol"] = 0.0
        cfg["gtol"] = float(choice(rng, [0.0, 1e-10]))
    sw = {"mode": mode, "at": int(rng.integers(2, 9)), "seed": int(rng.integers(0, 2**31 - 1))}
    if mode == "rescale":
        sw["c"] = float(10.0 ** rng.uniform(-2, 2))
    if mode == "reweight":
        sw["lam"] = float(10.0 ** rng.uniform(-2, 1.5))
        sw["reg"] = str(choice(rng, ["l2", "l2", "cos"]))
    if mode == "arbitrary":
        sw["frac"] = float(rng.uniform(0.2, 0.9))
        sw["touch_newest"] = bool(rng.random() < 0.5)
    plan = {"problem": spec, "cfg": cfg, "switch": sw, "bind_both": bool(rng.random() < 0.5)}
    plan["target_across_switch"] = bool(rng.random() < 0.4)
    if mode not in ("identity", "identity_copy"):
        sw["inplace"] = bool(rng.random() < 0.3)
        if rng.random() < 0.2:
            m2 = str(choice(rng, ["reweight", "arbitrary"]))
            sw["second"] = {"mode": m2, "at": sw["at"] + int(rng.integers(1, 4)), "seed": int(rng.integers(0, 2**31 - 1)), "inplace": bool(rng.random() < 0.3)}
            if m2 == "reweight":
                sw["second"].update(lam=float(10.0 ** rng.uniform(-2, 1)), reg=str(choice(rng, ["l2", "cos"])))
            else:
                sw["second"].update(frac=float(rng.uniform(0.2, 0.9)), touch_newest=bool(rng.random() < 0.5))
        if rng.random() < 0.15:
            # the rewrite happens at the start-up call of a restart (history restored from a checkpoint)
            plan["restart_at"] = int(rng.integers(2, 8))
            sw["at"] = 1
    return plan


def switched_problem(problem, sw):
    f0, g0 = problem.f, problem.g
    if sw["mode"] == "rescale":
        c = sw["c"]
        f = lambda x: f0(x) * c  # noqa: E731
        g = lambda x: g0(x) * c  # noqa: E731
    elif sw["mode"] == "reweight":
        lam = sw["lam"]
        if sw["reg"] == "l2":
            r = lambda x: 0.5 * float(x.dot(x))  # noqa: E731
            dr = lambda x: x  # noqa: E731
        else:
            r = lambda x: float(np.sum(np.cos(3.0 * x)))  # noqa: E731
            dr = lambda x: -3.0 * np.sin(3.0 * x)  # noqa: E731
        f = lambda x: f0(x) + lam * r(x)  # noqa: E731
        g = lambda x: g0(x) + lam * dr(x)  # noqa: E731
    else:
        return problem
    return Problem(problem.spec, problem.n, f, g, problem.x0, problem.bounds)


def make_rewriter(problem, sw, info):
    """The fault: returns what World.rewrite answers at update call ``sw['at']``."""

    second = sw.get("second")

    def rewriter(act, j, rec, x, f0, f0_old, grad, X, G):
        if second is not None and j == second["at"] and info.get("fired"):
            # a second redefinition later in the same run (same oracles: provenance, curvature, live matrices)
            info2 = {"fired": False}
            out = make_rewriter(act.problem, second, info2)(act, j, rec, x, f0, f0_old, grad, X, G)
            if info2["fired"]:
                info["second_fired"] = True
                info["pending_matrix_check"] = True
                info["second_event"] = rec["event"]
            return out
        if j != sw["at"]:
            return f0, f0_old, grad, G
        rec["mode"] = sw["mode"]
        info["fired"] = True
        info["event"] = rec["event"]
        info["pairs_at_switch"] = max(0, len(X) - 1)
        # live-memory check right after the rewrite (the start-up call has no update call of its own)
        info["pending_matrix_check"] = j > 1
        mode = sw["mode"]
        if mode in ("rescale", "reweight"):
            newp = switched_problem(problem, sw)
            info["new_problem"] = newp
            if mode == "rescale":
                c = sw["c"]
                G2 = deque(np.asarray(gi) * c for gi in G)
                grad2 = np.asarray(grad) * c
                out = (f0 * c, f0_old * c, grad2, G2)
            else:
                lam = sw["lam"]
                dr = (lambda z: z) if sw["reg"] == "l2" else (lambda z: -3.0 * np.sin(3.0 * z))
                G2 = deque(np.asarray(gi) + lam * dr(np.asarray(xi)) for xi, gi in zip(X, G))
                grad2 = np.asarray(grad) + lam * dr(np.asarray(x))
                out = (newp.f(np.array(x, copy=True)), newp.f(np.array(X[-1], copy=True)) if len(X) else f0_old, grad2, G2)
            act.problem = newp  # the user's objective is the new one from now on
            return _maybe_inplace(sw, out, grad, G)
        # arbitrary: per-vector rewrites that break curvature for a seeded subset
        rng = np.random.Generator(np.random.PCG64([int(sw["seed"]), 13]))
        G2 = deque()
        for gi in G:
            r = rng.random()
            if r < sw["frac"]:
                k = rng.random()
                if k < 0.4:
                    G2.append(-np.asarray(gi))
                elif k < 0.7:
                    G2.append(np.asarray(gi) * float(10.0 ** rng.uniform(-2, 2)))
                else:
                    G2.append(np.asarray(gi) + rng.standard_normal(gi.size) * float(np.max(np.abs(gi)) + 1.0))
            else:
                G2.append(np.array(gi, copy=True))
        grad2 = np.array(grad, copy=True)
        if sw.get("touch_newest"):
            grad2 = grad2 + rng.standard_normal(grad2.size) * 0.5 * float(np.max(np.abs(grad2)) + 1e-3)
        if np.array_equal(grad2, grad) and all(np.array_equal(a, b) for a, b in zip(G2, G)):
            # the seeded subset left every vector as it was: nothing has been rewritten
            rec["mode"] = "identity"
            info["fired"] = False
            info["pending_matrix_check"] = False
            return f0, f0_old, grad, G
        return _maybe_inplace(sw, (f0, f0_old, grad2, G2), grad, G)

    return rewriter


def _maybe_inplace(sw, out, grad, G):
    """A user may rewrite the arrays it was handed in place and return the very same objects."""
    if not sw.get("inplace"):
        return out
    f0, f0_old, grad2, G2 = out
    for gi, g2 in zip(G, G2):
        gi[:] = g2
    grad[:] = grad2
    return f0, f0_old, grad, G


def execute(plan):
    stats = Counter()
    keys = set()
    viol = []
    problem = build_problem(plan["problem"])
    spec = plan["problem"]
    cfg = dict(plan["cfg"])
    sw = plan["switch"]
    eps = float(cfg["eps_SY"])

    def add(clause, witness):
        viol.append({"clause": clause, "witness": witness})

    # ------------------------------------------------------------------ identity
    if sw["mode"] in ("identity", "identity_copy"):
        c0 = dict(cfg)
        c0["callback"] = {}
        if plan.get("bind_both"):
            # make the target and the ftol test bind at the same iteration (from a reference run)
            r0 = dict(c0)
            r0.update(ftol=0.0, ftarget=None)
            R0 = Act(problem, r0).run()
            stats["activations"] += 1
            fs = [s["snap"]["fun"] for s in R0.states]
            if len(fs) >= 2:
                j = 1 + (sw["seed"] % (len(fs) - 1))
                red = (fs[j - 1] - fs[j]) / max(abs(fs[j - 1]), abs(fs[j]), 1.0)
                c0["ftol"] = float(red * (1.0 + 1e-3)) if red > 0 else 1e-3
                c0["ftarget"] = float(fs[j] / R0.scale)
                stats["probe.identity_target_and_ftol_bind_together"] += 1
        A = Act(problem, c0).run()
        c1 = dict(c0)
        c1["update"] = {"mode": sw["mode"]}
        B = Act(problem, c1).run()
        stats["activations"] += 2
        stats["events"] += A.n_events + B.n_events
        stats["fault.identity_update_calls"] += B.counts["update"]
        if A.result is None or B.result is None:
            if (A.result is None) != (B.result is None):
                add("identity_update_changed_outcome", {"without": A.result_digest()[:40], "with": B.result_digest()[:40]})
            else:
                stats["nj.run_raised"] += 1
            return {"violations": viol, "stats": stats, "keys": keys, "digest": A.event_digest()}
        if A.result_digest() != B.result_digest():
            sa, sb = snapshot(A.result), snapshot(B.result)
            add(
                "identity_update_changed_result",
                {"message_without": sa["message"], "message_with": sb["message"], "nit": [sa["nit"], sb["nit"]], "nfev": [sa["nfev"], sb["nfev"]]},
            )
        elif len(A.states) != len(B.states) or any(snap_bytes(p["snap"]) != snap_bytes(q["snap"]) for p, q in zip(A.states, B.states)):
            add("identity_update_changed_states", {"states": [len(A.states), len(B.states)]})
        elif [e for e in B.events if e[0] != "update"] != A.events:
            add("identity_update_changed_calls", {})
        if int(A.result.nit) >= 2:
            keys.add("|".join(str(v) for v in (spec["family"], spec["box"], spec["n"], cfg["maxcor"], sw["mode"], str(A.result.message)[:18], bool(plan.get("bind_both")), any(not u[1] for u in A.up_log))))
        return {"violations": viol, "stats": stats, "keys": keys, "digest": B.event_digest(), "shape": {"mode": "identity"}}

    # ------------------------------------------------------------------- rewrite
    info = {"fired": False}
    W = World(rewriter=make_rewriter(problem, sw, info))
    uni = Universe()
    seen = [0]
    switch_state = {}

    def advance(act):
        evs = act.events
        while seen[0] < len(evs):
            actor, j, xb, ob = evs[seen[0]]
            seen[0] += 1
            if actor == "jac":
                uni.add(np.frombuffer(xb, dtype=float), np.frombuffer(ob, dtype=float) * act.scale)
            elif actor == "update":
                rec = act.update_calls[j - 1]
                if rec["mode"] != "identity":
                    for xi, gi in zip(rec["X_in"], rec["G_out"]):
                        uni.set(xi, gi)
                    uni.set(rec["x"], rec["grad_out"])

    def judge_pairs(act, obj, where, at_switch):
        advance(act)
        sk = np.asarray(obj.hess_inv.sk, dtype=float)
        yk = np.asarray(obj.hess_inv.yk, dtype=float)
        m = sk.shape[0] if sk.size else 0
        w = {"where": where, "pairs": int(m), "mode": sw["mode"], "newest_rejected_at_switch": switch_state.get("newest_rejected")}
        # the run stopped on a stop test right after the rewrite: no memory update followed it
        w["stopped_right_after_rewrite"] = bool(info["fired"] and not any(t[0] >= info["event"] for t in act.up_log))
        stats["or.provenance"] += 1
        for i in range(m):
            sty, yty = float(sk[i].dot(yk[i])), float(yk[i].dot(yk[i]))
            if not sty > eps * yty:
                if abs(sty - eps * yty) <= 1e-9 * max(abs(sty), abs(eps * yty), 1e-300):
                    stats["nj.knife_edge"] += 1
                else:
                    add("retained_pair_violates_curvature", dict(w, index=i, sTy=sty, eps_yTy=eps * yty))
                    break
        end = uni.pos(np.asarray(obj.x, dtype=float))
        if m:
            chain, matched = find_chain(uni, sk, yk)
            if matched < m:
                add("pair_not_from_rewritten_history", dict(w, matched=matched))
                return "bad"
            if at_switch and chain[0] != end:
                add("newest_point_not_retained", dict(w, note="the chain of retained points does not end at state.x"))
                return "newest_dropped"
        elif at_switch and info.get("pairs_at_switch", 0) >= 1:
            # every pair was dropped: x itself must be the single retained point, i.e. no later state
            # may hold a point visited before it
            switch_state["oldest_allowed"] = end
        if m and not at_switch and switch_state.get("oldest_allowed") is not None:
            chain2, matched2 = find_chain(uni, sk, yk)
            if matched2 == m and chain2[-1] < switch_state["oldest_allowed"]:
                add("newest_point_not_retained", dict(w, note="a point older than the switch point survived a rewrite that dropped every pair"))
        return "ok"

    def on_state(act, rec, state):
        if not info["fired"]:
            advance(act)
            return
        # (a rewrite at the start-up call has no callback of its own: the first state seen belongs
        # to the next iteration, in which an ordinary refused pair is legal)
        at_switch = "state_index" not in switch_state and sw["at"] > 1
        if sw["at"] == 1 and "state_index" not in switch_state:
            switch_state["state_index"] = -1
        if at_switch:
            switch_state["state_index"] = len(act.states) - 1
            switch_state["eager"] = pickle.dumps(state, protocol=4)
            switch_state["nit"] = int(state.nit)
            switch_state["pairs_after"] = int(np.asarray(state.hess_inv.sk).shape[0]) if np.asarray(state.hess_inv.sk).size else 0
        switch_state.setdefault("verdicts", []).append(judge_pairs(act, state, "callback state nit=%d" % int(state.nit), at_switch))
        # the live-memory check belongs to the iteration of the rewrite only
        info["pending_matrix_check"] = False

    def on_update(act, a, k, X, G, mats, accepted, pre):
        if not info.get("pending_matrix_check"):
            return
        info["pending_matrix_check"] = False
        switch_state["newest_rejected"] = not accepted
        stats["probe.rewrite_with_rejected_newest"] += 0 if accepted else 1
        maxcor = a[4] if len(a) > 4 else k["maxcor"]
        res = c10.check_memory(X, G, mats, maxcor, eps, stats, check_matrix=len(X) > 1)
        stats["or.live_matrix_after_switch"] += 1
        for clause, w in res:
            add("matrices_not_rebuilt_from_rewritten_history", dict(w, sub_clause=clause, newest_rejected_at_switch=not accepted, mode=sw["mode"]))
        # the newest point must be retained in the memory itself
        xk = a[0] if len(a) > 0 else k["xk"]
        if len(X) == 0 or np.asarray(X[-1]).tobytes() != np.asarray(xk).tobytes():
            add("newest_point_not_retained", {"where": "memory after the switch", "mode": sw["mode"], "stored_points": len(X), "newest_rejected_at_switch": not accepted})

    def on_use(act, X, G, mats, uinfo):
        # the matrices the first iteration after the rewrite computes its step with
        if not info.get("fired") or switch_state.get("use_checked"):
            return
        switch_state["use_checked"] = True
        stats["or.matrices_used_after_switch"] += 1
        if len(X) != len(G):
            res = [("deques_out_of_step", {"len_X": len(X), "len_G": len(G)})]
        elif len(X) <= 1:
            res = [("matrix_built_from_other_pairs", {"pairs": 0})] if (mats.use_factor and np.any(mats.W)) else []
        else:
            res = c10.check_memory(X, G, mats, int(uinfo["maxcor"]), eps, stats)
        for clause, w in res:
            add("matrices_not_rebuilt_from_rewritten_history", dict(w, sub_clause=clause, where="use site of the next iteration", mode=sw["mode"]))

    c = dict(cfg)
    c["callback"] = {}
    c["update"] = {"mode": sw["mode"]}
    if plan.get("target_across_switch") and sw["mode"] in ("rescale", "reweight"):
        # place the target between the old and the new objective value at the switch point: the stop
        # test of that iteration must look at the NEW value (scouting run without update actor)
        s0 = dict(cfg)
        s0.update(callback={}, ftarget=None)
        S0 = Act(problem, s0).run()
        stats["activations"] += 1
        i_sw = sw["at"] - 2  # update call j happens in the (j-1)-th successful iteration
        if S0.result is not None and 1 <= i_sw < len(S0.states):
            f_at = S0.states[i_sw]["snap"]["fun"]
            f_prev = S0.states[i_sw - 1]["snap"]["fun"]
            f_new = switched_problem(problem, sw).f(np.array(S0.states[i_sw]["snap"]["x"], copy=True))
            gap = min(f_new - f_at, f_prev - f_at)
            if np.isfinite(gap) and gap > 0:
                c["ftarget"] = float(f_at + 0.5 * gap)
                stats["probe.target_across_switch"] += 1
    ck0 = None
    if plan.get("restart_at"):
        p0 = dict(cfg)
        p0.update(maxiter=int(plan["restart_at"]), callback=None, update=None, ftarget=None)
        P0 = Act(problem, p0).run()
        stats["activations"] += 1
        if P0.result is None or int(P0.result.nit) != int(plan["restart_at"]):
            stats["nj.no_checkpoint_for_startup_rewrite"] += 1
            return {"violations": viol, "stats": stats, "keys": keys, "digest": P0.event_digest()}
        ck0 = Store.loads(Store.dumps(P0.result))
        c["maxiter"] = int(P0.result.nit) + int(cfg["maxiter"])
        # (the restored points and the restart point enter the universe, oldest first, when the
        # start-up update event is read)
        stats["probe.rewrite_at_startup_of_restart"] += 1
    A = Act(problem, c, world=W, checkpoint=ck0, on_state=on_state, on_update=on_update, on_use=on_use).run()
    stats["activations"] += 1
    stats["events"] += A.n_events
    if A.result is None:
        if A.exc is not None and info["fired"]:
            last_sy = None
            if A.states:
                sn = A.states[-1]["snap"]
                last_sy = np.sum(sn["sk"] * sn["yk"], axis=1) if sn["sk"].size else None
            if last_sy is not None and (last_sy > 0).all() and float(np.min(last_sy)) < 1e-200:
                # a run forced to go on after convergence (gtol = ftol = 0): s.y has reached the
                # underflow range and 1/(s.y) overflows in the factorisation - no rewrite involved
                stats["nj.underflow_regime"] += 1
            elif sw["mode"] == "arbitrary" and isinstance(A.exc, np.linalg.LinAlgError):
                # arbitrary rewrites belong to no objective: pairs that all satisfy the curvature
                # condition can still differ by ten orders of magnitude in s.y, and the Cholesky
                # factorisation of the middle matrix then breaks down numerically (a negative s.y
                # would give NaN and a ValueError instead, which is still reported)
                stats["nj.numerical_breakdown_on_inconsistent_history"] += 1
            else:
                add("run_raised_after_rewrite", {"exception": repr(A.exc)[:300], "mode": sw["mode"]})
        else:
            stats["nj.run_raised"] += 1
        return {"violations": viol, "stats": stats, "keys": keys, "digest": A.event_digest()}
    if not info["fired"]:
        stats["nj.switch_not_reached"] += 1
        return {"violations": viol, "stats": stats, "keys": keys, "digest": A.event_digest(), "shape": {"mode": sw["mode"], "fired": False}}
    stats["fault.rewrite." + sw["mode"]] += 1
    stats["fault.second_rewrite"] += 1 if info.get("second_fired") else 0
    # the termination report must be true of the NEW objective (C04's oracle on a rewritten run)
    if c.get("ftarget") is not None:
        from . import c04

        def add_report(clause, witness):
            add("report_after_rewrite." + clause, dict(witness, mode=sw["mode"]))

        c04.judge(
            A, dict(c, jac="callable"), problem,
            1 if ck0 is None else int(ck0.nfev), 0 if ck0 is None else int(ck0.nit), add_report, "rewritten run",
        )
        stats["or.report_after_rewrite"] += 1
    filt = [t for t in A.filter_log]
    dropped = sum(a_ - b_ for a_, b_ in filt)
    stats["probe.pairs_dropped_by_filter"] += dropped
    # a result produced in the very iteration of the rewrite is the state at the switch: the newest
    # point must be retained there too
    stopped_at_switch = bool(sw["at"] > 1 and not any(t[0] >= info["event"] for t in A.up_log) and "state_index" not in switch_state)
    judge_pairs(A, A.result, "result", stopped_at_switch)

    # ---- (c) recovery equivalence on the switched objective
    verdict = "none"
    if sw["mode"] in ("rescale", "reweight") and switch_state.get("state_index", -1) >= 0:
        i = switch_state["state_index"]
        nit = switch_state["nit"]
        # reference = the same run (same rewrite) stopped one iteration after the switch, whatever that
        # iteration did (a step, or a line search that failed and left x where it was)
        x_ref = None
        info_r = {"fired": False}
        cr = dict(c)
        cr["maxiter"] = nit + 1
        Rr = Act(problem, cr, world=World(rewriter=make_rewriter(problem, sw, info_r)), checkpoint=None).run()
        stats["activations"] += 1
        if Rr.result is not None and info_r["fired"] and int(Rr.result.nfev) > int(A.states[i]["snap"]["nfev"]):
            x_ref = np.asarray(Rr.result.x, dtype=float)
        if x_ref is not None:
            c2 = dict(cfg)
            c2["update"] = None
            verdict, inf, act2 = compare_restart(info["new_problem"], c2, switch_state["eager"], x_ref, nit + 1, sw["seed"], stats)
            stats["or.recovery_equivalence"] += 1
            if verdict == "raised":
                add("recovery_raised", dict(inf, mode=sw["mode"]))
            elif verdict == "fail":
                add("next_iterate_differs_from_restart_on_new_objective", dict(inf, mode=sw["mode"], nit=nit, newest_rejected_at_switch=switch_state.get("newest_rejected")))
        else:
            stats["nj.no_next_iterate"] += 1
    if info.get("pairs_at_switch", 0) >= 1:
        keys.add(
            "|".join(
                str(v)
                for v in (
                    spec["family"],
                    spec["box"],
                    spec["n"],
                    cfg["maxcor"],
                    eps,
                    sw["mode"],
                    info.get("pairs_at_switch"),
                    dropped,
                    switch_state.get("newest_rejected"),
                    verdict,
                    ",".join(sorted(set(switch_state.get("verdicts", [])))),
                )
            )
        )
    shape = {"mode": sw["mode"], "fired": True, "pairs_at_switch": info.get("pairs_at_switch"), "dropped": dropped}
    return {"violations": viol[:8], "stats": stats, "keys": keys, "digest": A.event_digest(), "shape": shape}
