"""C06 - restarting from a returned result continues the run (DESIGN 4.4).

Fault kind: planned stop (maxiter=k) followed by recovery from the persisted
result, at EVERY split k of the explored run, with chains and reduced maxcor.
Reference: separate uninterrupted runs with maxiter=j.
"""

from __future__ import annotations

from collections import Counter

import numpy as np

from ..core import choice, draw_cfg
from ..oracles import MSG_ITER, compare_restart, pairs_close, raise_witness, restart_once
from ..problems import FAMILIES, build_problem, draw_problem_spec
from ..world import Act, Store, snapshot, snap_diff

ID = "C06"
LEVEL = "fault_enumeration"
LEVEL_TEXT = 'Fault enumeration relative to each explored run: every split iteration k reached by the run is a stop/restart fault (zero-iteration restart, one-iteration restart, reduced maxcor, chains up to 4), over a seeded swarm of problems and configurations. Complete per run, sampled over runs - the right level for a property quantified over all split points of all histories.'
LEVEL_NOTE = "Trusts the uninterrupted run of the same code as the reference; 'up to rounding' is calibrated by restarts from rounding-perturbed checkpoints (DESIGN 7.2); NumPy/SciPy/pickle are real and trusted."
TECHNIQUE = 'deterministic simulation: planned-stop/restart fault at every split (also through the target-already-met return, with reduced maxcor, in chains), reference = uninterrupted run'
DESIGN_REF = 'DESIGN.md 4.4, 7.2'
BUDGET = {
    "quick": {"plans": 3000, "wall": 90, "chunk": 4},
    "thorough": {"plans": 20000, "wall": 900, "chunk": 8},
}
RULE = (
    "one plan = (problem, configuration, K); every split k<=K reached by the uninterrupted run is "
    "one stop/restart fault, each followed by a zero-iteration restart, a one-iteration restart, a "
    "restart with reduced maxcor and a chain of up to 4 restarts. A case is counted as non-trivial "
    "and distinct by hash(family, box, n, maxcor, eps_SY, k, number of pairs in the checkpoint, "
    "restart kind, verdict class) and only if the checkpoint holds at least one correction pair."
)
COMPONENTS = {
    "real": ["lbfgsb.* (all modules)", "numpy", "scipy (DCSRCH, LbfgsInvHessProduct, LAPACK)"],
    "stub": ["objective/gradient actors", "durable store (pickle)", "planned stop = maxiter budget"],
}
ASSUMPTIONS = [
    "'up to rounding' is judged against the spread of restarts from rounding-perturbed copies of the same checkpoint (factor 1e3); states where that spread exceeds 1e-3 of the step are counted as vacuous, not judged",
    "gradient scalers are excluded here: their interaction with restart is judged under C05",
]


def gen(rng, tier, index):
    fams = list(FAMILIES)
    spec = draw_problem_spec(rng, fams, nmax=12)
    jac_modes = ["callable"] * 6 + ["2-point", "3-point", None]
    cfg = draw_cfg(rng, jac_modes=jac_modes, allow_scaler=False)
    if cfg["jac"] != "callable" and spec["box"] == "degenerate":
        spec["box"] = "boxed"
    cfg["ftol"] = 0.0
    cfg["gtol"] = float(choice(rng, [0.0, 1e-10]))
    cfg.pop("maxiter", None)
    K = int(rng.integers(3, 11)) if tier == "quick" else int(rng.integers(3, 26))
    plan = {"problem": spec, "cfg": cfg, "K": K, "_ints": ["K"]}
    plan["chain_seed"] = int(rng.integers(0, 2**31 - 1))
    # a share of the plans runs with an evaluation budget that binds near a split: the restart must
    # then see the same remaining budget as the uninterrupted run (identical arguments)
    plan["tight_maxfun"] = int(rng.integers(1, 4)) if rng.random() < 0.3 else 0
    return plan


def _valid_stop(res, k):
    return res is not None and res.nit == k and res.message == MSG_ITER


def execute(plan):
    stats = Counter()
    keys = set()
    viol = []
    problem = build_problem(plan["problem"])
    cfg = dict(plan["cfg"])
    K = int(plan["K"])
    spec = plan["problem"]

    def key(k, npairs, kind, verdict):
        if npairs < 1:
            return
        keys.add(
            "%s|%s|%d|%d|%g|%d|%d|%s|%s"
            % (spec["family"], spec["box"], spec["n"], cfg["maxcor"], cfg["eps_SY"], k, npairs, kind, verdict)
        )

    if plan.get("tight_maxfun"):
        sc = dict(cfg)
        sc.update(maxiter=K + 2, callback={})
        S0 = Act(problem, sc).run()
        stats["activations"] += 1
        nf = [r["snap"]["nfev"] for r in S0.states]
        if len(nf) >= 2:
            j = (plan["chain_seed"] % (len(nf) - 1)) + 1  # the budget runs out during iteration j+1
            cfg["maxfun"] = int(nf[j - 1]) + int(plan["tight_maxfun"])
            stats["probe.tight_maxfun_plan"] += 1
    # uninterrupted references R_j = run(maxiter=j)
    R = {}
    for j in range(1, K + 3):
        c = dict(cfg)
        c["maxiter"] = j
        a = Act(problem, c).run()
        stats["activations"] += 1
        stats["events"] += a.n_events
        if a.result is None:
            stats["nj.reference_raised"] += 1
            break
        R[j] = a
        stats["probe.ls_none"] += sum(1 for t in a.ls_log if t[2] is None) if j == K + 1 else 0
        stats["probe.memory_reset_in_reference"] += sum(1 for i, t in enumerate(a.ls_log) if t[2] is None and i + 1 < len(a.ls_log)) if j == K + 1 else 0
        if not _valid_stop(a.result, j):
            break
    if K + 1 in R:
        stats["probe.rejected_update"] += sum(1 for t in R[K + 1].up_log if not t[1])
    digest = "|".join("%d:%s" % (j, R[j].result_digest()) for j in sorted(R))

    def add(clause, k, witness):
        w = {"k": k}
        w.update(witness)
        viol.append({"clause": clause, "witness": w})

    for k in sorted(R):
        if k > K or not _valid_stop(R[k].result, k):
            continue
        ck = snapshot(R[k].result)
        blob = Store.dumps(R[k].result)
        newest_is_x = bool(R[k].up_log) and bool(R[k].up_log[-1][1])
        npairs = ck["sk"].shape[0]
        stats["fault.stop_restart"] += 1
        # (1) zero-iteration restart
        z = restart_once(problem, cfg, Store.loads(blob), k)
        stats["activations"] += 1
        stats["or.zero_iteration"] += 1
        if z.result is None:
            add("restart.raised", k, {"kind": "zero", **raise_witness(z)})
            key(k, npairs, "zero", "raised")
            continue
        zs = snapshot(z.result)
        ok, info = pairs_close(zs["sk"], zs["yk"], ck["sk"], ck["yk"], ck)
        if not ok:
            if _knife_edge_newest(ck, cfg):
                stats["nj.knife_edge"] += 1
            else:
                add("zero_iter.pairs", k, info)
        bad = snap_diff(zs, ck, fields=("x", "fun", "jac", "nit"))
        # counters: the checkpoint's plus the calls made since (a restart may legally re-evaluate)
        if zs["nfev"] != ck["nfev"] + int(z.counts["fun"]):
            bad.append("nfev")
        if cfg["jac"] == "callable" and zs["njev"] != ck["njev"] + int(z.counts["jac"]):
            bad.append("njev")
        if bad:
            add("zero_iter.state", k, {"fields": bad, "nit": [zs["nit"], ck["nit"]]})
        key(k, npairs, "zero", "ok" if ok and not bad else "bad")
        if npairs == 0:
            stats["nj.empty_memory"] += 1
        # (2) one-iteration restart vs uninterrupted iterate k+1
        ref = R.get(k + 1)
        if ref is not None and ref.result is not None and ref.result.nfev > R[k].result.nfev:
            x_ref = np.asarray(ref.result.x, dtype=float)
            verdict, info, act = compare_restart(problem, cfg, blob, x_ref, k + 1, plan["problem"]["pseed"] + k, stats, ref_act=ref, ref_searches_before=len(R[k].ls_log))
            stats["or.next_iterate"] += 1
            if verdict == "raised":
                add("restart.raised", k, {"kind": "one", **info})
            elif verdict == "fail":
                add("next_iterate", k, info)
            elif verdict == "ok":
                if act.result.nit != ref.result.nit:
                    add("nit_continues", k, {"restart_nit": int(act.result.nit), "reference_nit": int(ref.result.nit)})
                # the memory after the resumed iteration is the uninterrupted run's memory
                n_res = int(np.asarray(act.result.hess_inv.sk).shape[0]) if np.asarray(act.result.hess_inv.sk).size else 0
                n_ref = int(np.asarray(ref.result.hess_inv.sk).shape[0]) if np.asarray(ref.result.hess_inv.sk).size else 0
                stats["or.memory_after_resume"] += 1 if newest_is_x else 0
                if not newest_is_x:
                    # the last update before the split was rejected: the solver pairs the next iterate with
                    # an older retained point that the checkpoint format does not carry; only the next
                    # iterate (which depends on the matrix alone) is comparable, as the property states
                    stats["nj.rejected_update_before_split"] += 1
                elif n_res != n_ref:
                    if _knife_edge_newest(snapshot(act.result), cfg) or _knife_edge_newest(snapshot(ref.result), cfg) or _knife_edge_newest(ck, cfg):
                        stats["nj.knife_edge"] += 1
                    else:
                        add("memory_after_resumed_iteration", k, {"pairs_restart": n_res, "pairs_uninterrupted": n_ref})
            key(k, npairs, "one", verdict)
            # two resumed iterations: the continuation, not only its first step
            ref2 = R.get(k + 2)
            # (finite-difference gradients amplify a one-ulp difference of the first resumed iterate by
            # 1/h ~ 1e8 in the second one: the two-iteration comparison is made with exact gradients only)
            same_active = True
            if verdict == "ok":
                xa, xr = np.asarray(act.result.x, dtype=float), np.asarray(ref.result.x, dtype=float)
                same_active = bool(
                    np.array_equal(xa == problem.lb, xr == problem.lb) and np.array_equal(xa == problem.ub, xr == problem.ub)
                )
                if not same_active:
                    # one ulp decides whether a variable sits exactly on its bound after the first resumed
                    # iteration: the next iteration then works with another active set (DESIGN 7.4)
                    stats["nj.active_set_knife_edge"] += 1
            if verdict == "ok" and same_active and newest_is_x and cfg["jac"] == "callable" and ref2 is not None and ref2.result is not None and ref2.result.nfev > ref.result.nfev:
                v2, info2, act2 = compare_restart(
                    problem, cfg, blob, np.asarray(ref2.result.x, dtype=float), k + 2, plan["problem"]["pseed"] + 7 * k, stats, ref_act=ref2, rel_step_tol=1e-5,
                    ref_searches_before=len(R[k].ls_log),
                )
                stats["or.second_iterate"] += 1
                if v2 == "raised":
                    add("restart.raised", k, {"kind": "two", **info2})
                elif v2 == "fail":
                    add("second_iterate", k, info2)
                key(k, npairs, "two", v2)
        else:
            stats["nj.no_next_iterate"] += 1
        # (3) reduced maxcor
        if npairs >= 2:
            m2 = 1 + (plan["chain_seed"] + k) % (npairs - 1) if npairs > 2 else 1
            c2 = dict(cfg)
            c2["maxcor"] = m2
            r2 = restart_once(problem, c2, Store.loads(blob), k)
            stats["activations"] += 1
            stats["or.reduced_maxcor"] += 1
            stats["probe.restored_with_reduced_maxcor"] += 1
            if r2.result is None:
                add("restart.raised", k, {"kind": "reduced", **raise_witness(r2)})
            else:
                s2 = snapshot(r2.result)
                ok, info = pairs_close(s2["sk"], s2["yk"], ck["sk"][-m2:], ck["yk"][-m2:], ck)
                if not ok:
                    if _knife_edge_newest(ck, cfg):
                        stats["nj.knife_edge"] += 1
                    else:
                        info["maxcor_new"] = m2
                        info["pairs_in_checkpoint"] = npairs
                        add("reduced_maxcor.pairs", k, info)
                key(k, npairs, "reduced%d" % m2, "ok" if ok else "bad")
                # one iteration on the truncated memory == one iteration from a checkpoint that only
                # holds the m2 most recent pairs (same restored history, hence bit-identical)
                from scipy.optimize import LbfgsInvHessProduct

                ck_t = Store.loads(blob)
                ck_t["hess_inv"] = LbfgsInvHessProduct(np.array(ck["sk"][-m2:], copy=True), np.array(ck["yk"][-m2:], copy=True))
                ra = restart_once(problem, c2, Store.loads(blob), k + 1)
                rb = restart_once(problem, c2, ck_t, k + 1)
                stats["activations"] += 2
                stats["or.reduced_maxcor_iteration"] += 1
                if ra.result_digest() != rb.result_digest():
                    add("reduced_maxcor.next_iterate", k, {"maxcor_new": m2, "pairs_in_checkpoint": npairs})
                # (3b) the same restart when the checkpoint already meets the target (the solver returns
                # before doing anything): the memory it hands back - whole or cut to the most recent
                # m2 pairs - must resume like the checkpoint itself
                if cfg.get("scaler") is None and cfg.get("ftarget") is None and np.isfinite(ck["fun"]):
                    c3 = dict(c2)
                    c3["ftarget"] = float(ck["fun"]) + 1.0 + abs(float(ck["fun"]))
                    r3 = restart_once(problem, c3, Store.loads(blob), k + 1)
                    stats["activations"] += 1
                    stats["or.reduced_maxcor_target_met"] += 1
                    if r3.result is None:
                        add("restart.raised", k, {"kind": "reduced-target-met", **raise_witness(r3)})
                    else:
                        s3 = snapshot(r3.result)
                        m3 = s3["sk"].shape[0]
                        ok3 = m3 in (m2, npairs) and pairs_close(s3["sk"], s3["yk"], ck["sk"][-m3:], ck["yk"][-m3:], ck)[0]
                        if not ok3:
                            add("reduced_maxcor.pairs", k, {"maxcor_new": m2, "pairs_in_checkpoint": npairs, "pairs_returned": int(m3), "path": "target already met"})
                        else:
                            rc = restart_once(problem, c2, Store.loads(Store.dumps(r3.result)), k + 1)
                            stats["activations"] += 1
                            if rc.result_digest() != ra.result_digest():
                                add("reduced_maxcor.next_iterate", k, {"maxcor_new": m2, "pairs_in_checkpoint": npairs, "path": "through a result returned because the target was met"})

    # (4) chains of restarts
    ks = sorted(j for j in R if j <= K and _valid_stop(R[j].result, j))
    if len(ks) >= 3:
        rng = np.random.Generator(np.random.PCG64([int(plan["chain_seed"]), 5]))
        nseg = int(min(len(ks), rng.integers(2, 5)))
        picks = sorted(rng.choice(ks, size=nseg, replace=False).tolist())
        prev_blob = Store.dumps(R[picks[0]].result)
        for k2 in picks[1:]:
            seg = restart_once(problem, cfg, Store.loads(prev_blob), k2)
            stats["activations"] += 1
            stats["fault.stop_restart"] += 1
            stats["probe.chain_segment"] += 1
            if seg.result is None:
                add("restart.raised", k2, {"kind": "chain", **raise_witness(seg)})
                break
            if not _valid_stop(seg.result, k2):
                break
            # continuing the previous segment one more iteration is the reference
            cont = restart_once(problem, cfg, Store.loads(prev_blob), k2 + 1)
            stats["activations"] += 1
            blob2 = Store.dumps(seg.result)
            ck2 = snapshot(seg.result)
            if cont.result is not None and cont.result.nfev > seg.result.nfev:
                verdict, info, act = compare_restart(
                    problem, cfg, blob2, np.asarray(cont.result.x, dtype=float), k2 + 1, plan["chain_seed"] + k2, stats, ref_act=cont,
                    ref_searches_before=len(seg.ls_log),
                )
                stats["or.chain_next_iterate"] += 1
                if verdict == "raised":
                    add("restart.raised", k2, {"kind": "chain-one", **info})
                elif verdict == "fail":
                    add("chain.next_iterate", k2, info)
                key(k2, ck2["sk"].shape[0], "chain", verdict)
            z = restart_once(problem, cfg, Store.loads(blob2), k2)
            stats["activations"] += 1
            if z.result is not None:
                zs = snapshot(z.result)
                ok, info = pairs_close(zs["sk"], zs["yk"], ck2["sk"], ck2["yk"], ck2)
                if not ok and not _knife_edge_newest(ck2, cfg):
                    add("chain.pairs", k2, info)
            prev_blob = blob2

    shape = {"splits": len(ks), "family": spec["family"], "n": spec["n"]}
    return {"violations": viol, "stats": stats, "keys": keys, "digest": digest, "shape": shape}


def _knife_edge_newest(ck, cfg):
    """DESIGN 7.4: is the newest pair within 1e-6 (relative) of the curvature threshold?"""
    if ck["sk"].shape[0] == 0:
        return False
    s, y = ck["sk"][-1], ck["yk"][-1]
    sty = float(s.dot(y))
    thr = float(cfg.get("eps_SY", 2.2e-16)) * float(y.dot(y))
    return abs(sty - thr) <= 1e-6 * max(abs(sty), abs(thr))
