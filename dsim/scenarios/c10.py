"""C10 - the limited-memory matrix vs an executable reference model (DESIGN 4.6).

Model-based stateful simulation on the memory API (LBFGSB_MATRICES,
update_lbfgs_matrices, the X/G deques, the restart restore path): histories of
accept / reject / reset / restore operations, checked after every operation
against a list-of-pairs model and the dense BFGS recursion in long double; plus
the same oracle applied to the live memory of real runs (in-run interception).
"""

from __future__ import annotations

import copy
from collections import Counter, deque

import numpy as np
from scipy.optimize import LbfgsInvHessProduct, OptimizeResult

import lbfgsb.main as _main
from lbfgsb.bfgsmats import LBFGSB_MATRICES

from ..core import choice, draw_cfg
from ..problems import FAMILIES, build_problem, draw_problem_spec
from ..world import Act, Store, mats_fingerprint

ID = "C10"
LEVEL = "exploration"
LEVEL_TEXT = (
    "Model-based exploration of update histories (accept / reject / reset / restore, up to 40 operations, maxcor "
    "1-10, n 1-12, three curvature thresholds) on the real memory code, checked after every operation against a "
    "list-of-pairs reference model and the dense BFGS recursion accumulated in long double; the same oracle runs "
    "on the live memory of real optimisation runs (line-search resets, rejected updates, evictions, restarts)."
)
LEVEL_NOTE = (
    "Matrix comparisons use a tolerance of 1e-6 relative to the largest magnitude met in the dense recursion and are "
    "skipped (structure still checked) when the reference matrix has condition number above 1e6 or a pair is almost "
    "orthogonal (|s||y| > 1e4 s.y); positive definiteness: smallest eigenvalue of the symmetrised compact-form matrix, "
    "strictly positive whenever the tolerance is below half the smallest eigenvalue of the reference; exact comparisons for stored points, counts, order, eviction "
    "and the no-op on reject."
)
TECHNIQUE = "deterministic simulation: stateful operation histories (incl. failed operations and restore) against an executable reference model; in-run interception at the update site and at the use site (Cauchy-point call) of live runs, also with a history rewritten by an update function"
DESIGN_REF = "DESIGN.md 4.6, 7.3"
BUDGET = {
    "quick": {"plans": 25000, "wall": 90, "chunk": 16},
    "thorough": {"plans": 200000, "wall": 900, "chunk": 32},
}
RULE = (
    "one plan = one history of 1-40 memory operations (or one real run with the interceptor armed); one "
    "evaluation = one plan. Distinct non-trivial = hash(n, maxcor, eps, operation-kind trigram around each "
    "operation, number of stored pairs before it, verdict) for histories containing at least one accepted and one "
    "rejected/reset/restore operation; live runs: hash(family, box, maxcor, eps_SY, accepted/rejected/reset "
    "pattern of the first 6 updates)."
)
COMPONENTS = {
    "real": ["lbfgsb.bfgsmats (LBFGSB_MATRICES, update_lbfgs_matrices, update_X_and_G, form_invMfactors)", "lbfgsb.main.initialize_X_and_G (restore path)", "whole solver for the live plans"],
    "stub": ["caller of the memory API (operation generator)", "reference model: list of pairs + dense BFGS recursion in long double"],
}
ASSUMPTIONS = ["positive definiteness is judged by the smallest eigenvalue of the symmetrised dense matrix rebuilt through the solver's own triangular solves"]
EPSS = (2.2e-16, 1e-8, 1e-2)


def dense_from_mats(mats, n):
    """theta*I - W M W^T with M recovered from the triangular factors of M^-1."""
    # products with the middle matrix go through the same triangular solves the solver uses
    # (more accurate than inverting M^-1 when the pairs differ by many orders of magnitude)
    from lbfgsb.bfgsmats import bmv

    mw = bmv(mats.invMfactors, mats.W.T)  # M W^T, shape (2m, n)
    return mats.theta * np.eye(n) - mats.W @ mw


def dense_bfgs(pairs, n):
    """Textbook BFGS recursion from theta*I (theta of the newest pair), long double."""
    ld = np.longdouble
    s_new, y_new = pairs[-1]
    theta = ld(np.dot(y_new.astype(ld), y_new.astype(ld))) / ld(np.dot(s_new.astype(ld), y_new.astype(ld)))
    b = theta * np.eye(n, dtype=ld)
    big = float(abs(theta))
    for s, y in pairs:
        s = s.astype(ld)
        y = y.astype(ld)
        bs = b @ s
        t1 = np.outer(bs, bs) / (s @ bs)
        t2 = np.outer(y, y) / (y @ s)
        b = b - t1 + t2
        # largest magnitude met on the way: the scale at which rounding errors are made
        big = max(big, float(np.max(np.abs(t1))), float(np.max(np.abs(t2))), float(np.max(np.abs(b))))
    return b, float(theta), big


def check_memory(X, G, mats, maxcor, eps, stats, check_matrix=True):
    """The C10 oracle on one state of the memory. Returns [(clause, witness)]."""
    out = []
    n = X[-1].size
    npairs = len(X) - 1
    if len(X) != len(G):
        out.append(("deques_out_of_step", {"len_X": len(X), "len_G": len(G)}))
        return out
    if npairs > maxcor:
        out.append(("more_than_maxcor_pairs", {"pairs": npairs, "maxcor": maxcor}))
    pairs = [(X[i + 1] - X[i], G[i + 1] - G[i]) for i in range(npairs)]
    for i, (s, y) in enumerate(pairs):
        sty = float(s.dot(y))
        yty = float(y.dot(y))
        if not sty > eps * yty:
            if abs(sty - eps * yty) <= 1e-9 * max(abs(sty), abs(eps * yty), 1e-300):
                stats["nj.knife_edge"] += 1
            else:
                out.append(("stored_pair_violates_curvature", {"index": i, "of": npairs, "sTy": sty, "eps_yTy": eps * yty}))
    if npairs == 0 or not check_matrix:
        return out
    if not mats.use_factor:
        out.append(("matrix_not_built", {"pairs": npairs}))
        return out
    # shapes follow the stored pairs
    if mats.W.shape != (n, 2 * npairs):
        out.append(("matrix_built_from_other_pairs", {"W_shape": list(mats.W.shape), "pairs": npairs}))
        return out
    b_ref, theta_ref, big = dense_bfgs(pairs, n)
    b_ref64 = np.array(b_ref, dtype=float)
    if not np.all(np.isfinite(b_ref64)) or not np.isfinite(big):
        stats["nj.ill_conditioned"] += 1
        return out
    cond = np.linalg.cond(b_ref64)
    # pairs almost orthogonal (s.y << |s||y|) make the compact form lose all accuracy
    angle = max(float(np.linalg.norm(s) * np.linalg.norm(y) / s.dot(y)) for s, y in pairs)
    if not np.isfinite(cond) or cond > 1e6 or not np.isfinite(angle) or angle > 1e4:
        stats["nj.ill_conditioned"] += 1
        return out
    stats["or.matrix_comparisons"] += 1
    if abs(mats.theta - theta_ref) > 1e-9 * abs(theta_ref):
        out.append(("theta_is_not_yy_over_sy_of_newest_pair", {"theta": float(mats.theta), "reference": theta_ref}))
    try:
        b = dense_from_mats(mats, n)
    except np.linalg.LinAlgError:
        out.append(("middle_matrix_singular", {}))
        return out
    scale = max(float(np.max(np.abs(b_ref64))), big)
    err = float(np.max(np.abs(b - b_ref64)))
    tol = 1e-6 * scale * max(1.0, cond / 1e3) * max(1.0, angle / 10.0)
    if not err <= tol:
        out.append(("matrix_is_not_bfgs_of_stored_pairs", {"max_abs_err": err, "scale": scale, "cond": float(cond), "pairs": npairs}))
        return out
    if float(np.max(np.abs(b - b.T))) > tol:
        out.append(("matrix_not_symmetric", {"asym": float(np.max(np.abs(b - b.T)))}))
    lam_min = float(np.min(np.linalg.eigvalsh(0.5 * (b + b.T))))
    # strictly positive where the reference matrix is comfortably conditioned, otherwise up to the
    # accuracy of the comparison itself
    lam_ref = float(np.min(np.linalg.eigvalsh(0.5 * (b_ref64 + b_ref64.T))))
    # strictly positive whenever the comparison is accurate enough to tell (tolerance below half the
    # smallest eigenvalue of the reference), otherwise positive up to that tolerance
    if not (lam_min > 0.0 if tol < 0.5 * lam_ref else lam_min > -tol):
        out.append(("matrix_not_positive_definite", {"cond": float(cond), "lambda_min": lam_min}))
    s, y = pairs[-1]
    sec = float(np.max(np.abs(b @ s - y)))
    if sec > tol * float(np.max(np.abs(s))) * n + 1e-9 * float(np.max(np.abs(y))):
        out.append(("secant_equation_fails", {"residual": sec, "y_norm": float(np.max(np.abs(y)))}))
    return out


# ------------------------------------------------------------------ generation
def gen(rng, tier, index):
    if rng.random() < 0.3:
        spec = draw_problem_spec(rng, list(FAMILIES), nmax=12)
        cfg = draw_cfg(rng, jac_modes=["callable"], allow_scaler=True)
        cfg["maxiter"] = int(rng.integers(3, 25))
        cfg["ftol"] = 0.0
        cfg["gtol"] = 0.0
        plan = {"kind": "live", "problem": spec, "cfg": cfg, "restart_at": int(rng.integers(1, 6)) if rng.random() < 0.4 else 0, "_ints": ["restart_at"]}
        if rng.random() < 0.35:
            # an update function rewrites the gradient history in the middle of the run: the memory is
            # filtered and the matrices rebuilt outside update_lbfgs_matrices' ordinary path
            cfg.pop("scaler", None)
            cfg["update"] = {"mode": "arbitrary"}
            cfg["callback"] = {}
            if rng.random() < 0.3:
                cfg["maxcor"] = int(rng.integers(1, 3))
            plan["switch"] = {
                "mode": "arbitrary",
                "at": int(rng.integers(2, 7)),
                "seed": int(rng.integers(0, 2**31 - 1)),
                "frac": float(rng.uniform(0.2, 0.95)),
                "touch_newest": bool(rng.random() < 0.4),
                "inplace": bool(rng.random() < 0.3),
            }
        return plan
    n = int(rng.integers(1, 13))
    L = int(rng.integers(1, 41))
    ops = []
    for _ in range(L):
        r = rng.random()
        if r < 0.55:
            ops.append({"op": "accept", "len": float(10.0 ** rng.uniform(-3, 1))})
        elif r < 0.8:
            ops.append({"op": "reject", "how": str(choice(rng, ["negative", "subthreshold", "zero_step", "same_point_other_grad", "zero_y", "nan_gradient", "inf_minus_inf", "forced_rebuild"]))})
        elif r < 0.9:
            ops.append({"op": "reset"})
        else:
            ops.append({"op": "restore", "maxcor": int(rng.integers(1, 11)) if rng.random() < 0.4 else 0})
    return {
        "kind": "model",
        "n": n,
        "maxcor": int(rng.integers(1, 11)),
        "eps": float(choice(rng, EPSS)),
        "cond": float(10.0 ** rng.uniform(0, 3)),
        "hseed": int(rng.integers(0, 2**31 - 1)),
        "ops": ops,
    }


def candidates(plan):
    if plan.get("kind") == "model":
        ops = plan["ops"]
        if len(ops) > 1:
            q = copy.deepcopy(plan)
            q["ops"] = ops[: len(ops) // 2]
            yield q
            for i in range(len(ops)):
                q = copy.deepcopy(plan)
                del q["ops"][i]
                yield q
        for k, vals in (("n", (1, 2)), ("maxcor", (1, 2, 3))):
            for v in vals:
                if v < plan[k]:
                    q = copy.deepcopy(plan)
                    q[k] = v
                    yield q
    else:
        from ..core import generic_candidates

        yield from generic_candidates(plan)


# ------------------------------------------------------------------- execution
def execute_model(plan, stats, keys, viol):
    n = plan["n"]
    maxcor = plan["maxcor"]
    eps = plan["eps"]
    rng = np.random.Generator(np.random.PCG64([int(plan["hseed"]), 10]))
    q, _ = np.linalg.qr(rng.standard_normal((n, n)))
    lam = np.exp(rng.uniform(0, np.log(plan["cond"]), size=n))
    A = (q * lam) @ q.T
    A = 0.5 * (A + A.T)
    x = rng.standard_normal(n)
    g = A @ x
    X = deque([x.copy()])
    G = deque([g.copy()])
    mats = LBFGSB_MATRICES(n)
    mX, mG = [x.copy()], [g.copy()]  # reference model: the retained points
    kinds = []

    def add(clause, witness, i):
        w = {"op_index": i, "op": plan["ops"][i], "pairs_before": len(mX) - 1}
        w.update(witness)
        viol.append({"clause": clause, "witness": w})

    for i, op in enumerate(plan["ops"]):
        kind = op["op"]
        kinds.append(kind[:3])
        before_pairs = len(mX) - 1
        if kind in ("accept", "reject"):
            xl, gl = X[-1], G[-1]
            d = rng.standard_normal(n)
            d /= max(np.linalg.norm(d), 1e-300)
            if kind == "accept":
                s = d * op["len"]
                xk = xl + s
                gk = gl + A @ s
            else:
                how = op["how"]
                s = d * 0.1
                if how == "negative":
                    xk, gk = xl + s, gl - A @ s
                elif how == "subthreshold" and eps < 1e-10:
                    xk, gk = xl + s, gl - A @ s  # at rounding level the rule is a coin flip: use a clear case
                elif how == "subthreshold":
                    # y almost orthogonal to s: s.y just below eps*y.y (or negative for tiny eps)
                    y0 = A @ s
                    y = y0 - (y0.dot(s) / s.dot(s)) * s
                    if n == 1 or np.linalg.norm(y) <= 1e-6 * np.linalg.norm(y0):
                        y = (2.0 / eps) * s  # parallel to s and so long that s.y = eps*y.y/2
                    else:
                        y = y + (0.5 * eps * y.dot(y) / s.dot(s)) * s
                    xk, gk = xl + s, gl + y
                elif how == "zero_step":
                    xk, gk = xl.copy(), gl.copy()
                elif how == "same_point_other_grad":
                    xk, gk = xl.copy(), gl + A @ s
                elif how == "nan_gradient":
                    # a candidate with a non-finite gradient fails the curvature test (NaN > t is False)
                    xk, gk = xl + s, gl + A @ s
                    gk[int(rng.integers(0, n))] = np.nan
                elif how == "inf_minus_inf":
                    xk, gk = xl + s, gl + A @ s
                    gk[0] = np.inf if s[0] >= 0 else -np.inf
                    if n > 1:
                        gk[1] = -np.inf if s[1] >= 0 else np.inf
                elif how == "forced_rebuild":
                    # a rejected candidate handed over with is_force_update=True: the history must stay
                    # as it is and the matrices must (still) be those of the stored pairs
                    xk, gk = xl + s, gl - A @ s
                else:  # zero_y
                    xk, gk = xl + s, gl.copy()
            # model decision with the documented rule
            sk = xk - mX[-1]
            yk = gk - mG[-1]
            with np.errstate(all="ignore"):
                sty, yty = float(sk.dot(yk)), float(yk.dot(yk))
            model_accepts = bool(sty > eps * yty)
            force = kind == "reject" and op.get("how") == "forced_rebuild" and len(mX) > 1
            if abs(sty - eps * yty) <= 1e-9 * max(abs(sty), abs(eps * yty)) and sty != 0:
                stats["nj.knife_edge"] += 1
                return
            if model_accepts and not (np.linalg.norm(sk) * np.linalg.norm(yk) <= 1e4 * sty):
                stats["nj.ill_conditioned"] += 1  # an almost orthogonal pair: numerically meaningless from here on
                return
            pre = mats_fingerprint(X, G, mats)
            try:
                mats2 = _main.update_lbfgs_matrices(xk.copy(), gk.copy(), X, G, maxcor, mats, force, eps)
            except (np.linalg.LinAlgError, ValueError, FloatingPointError, ZeroDivisionError) as e:
                ang = float(np.linalg.norm(sk) * np.linalg.norm(yk) / sty) if sty > 0 else np.inf
                if not model_accepts or ang <= 1e4:
                    add("update_raised", {"exception": repr(e)[:200], "angle_factor": ang}, i)
                else:
                    stats["nj.ill_conditioned"] += 1
                return
            if model_accepts:
                mX.append(xk.copy())
                mG.append(gk.copy())
                if len(mX) > maxcor + 1:
                    mX.pop(0)
                    mG.pop(0)
                    stats["probe.eviction"] += 1
                stats["probe.accepted"] += 1
            else:
                stats["probe.rejected"] += 1
                stats["fault.rejected_update." + (op.get("how") or "natural")] += 1
                if force:
                    stats["probe.forced_rebuild_with_rejected_candidate"] += 1
                    if len(X) != len(mX) or any(a.tobytes() != b.tobytes() for a, b in zip(X, mX)):
                        add("rejected_update_touched_memory", {"forced": True}, i)
                        return
                elif mats_fingerprint(X, G, mats2) != pre:
                    add("rejected_update_touched_memory", {}, i)
                    return
            mats = mats2
        elif kind == "reset":
            # what a failed line search does
            X = deque([X[-1]])
            G = deque([G[-1]])
            mats = LBFGSB_MATRICES(n)
            mX, mG = [mX[-1]], [mG[-1]]
            stats["fault.memory_reset"] += 1
        elif kind == "restore":
            # what a restart does: rebuild the deques from the stored differences
            if len(X) < 2:
                continue
            m2 = op["maxcor"] or maxcor
            sk = np.atleast_2d(np.diff(np.array(X), axis=0))
            yk = np.atleast_2d(np.diff(np.array(G), axis=0))
            ck = OptimizeResult(x=X[-1].copy(), jac=G[-1].copy(), hess_inv=LbfgsInvHessProduct(sk, yk))
            try:
                Xr, Gr = _main.initialize_X_and_G(X[-1].copy(), ck, m2)
                matsr = LBFGSB_MATRICES(n)
                matsr = _main.update_lbfgs_matrices(X[-1].copy(), G[-1].copy(), Xr, Gr, m2, matsr, False, eps)
            except Exception as e:  # noqa: BLE001 - restoring a valid history must not fail
                add("restore_raised", {"exception": repr(e)[:200], "maxcor": m2}, i)
                return
            stats["fault.restore"] += 1
            stats["probe.restore_with_reduced_maxcor"] += 1 if m2 < len(X) - 1 else 0
            keep = min(m2, len(mX) - 1)
            exp_s = sk[-keep:] if keep else sk[:0]
            exp_y = yk[-keep:] if keep else yk[:0]
            got_s = np.atleast_2d(np.diff(np.array(Xr), axis=0)) if len(Xr) > 1 else sk[:0]
            got_y = np.atleast_2d(np.diff(np.array(Gr), axis=0)) if len(Gr) > 1 else yk[:0]
            if got_s.shape != exp_s.shape:
                # the newest pair may sit on the curvature threshold after reconstruction
                s, y = sk[-1], yk[-1]
                if abs(s.dot(y) - eps * y.dot(y)) <= 1e-6 * max(abs(s.dot(y)), eps * y.dot(y)):
                    stats["nj.knife_edge"] += 1
                    return
                add("restore_lost_or_invented_pairs", {"restored": int(got_s.shape[0]), "expected": int(exp_s.shape[0]), "maxcor": m2}, i)
                return
            m = max(1, sk.shape[0])
            bs = 8 * m * np.finfo(float).eps * (np.abs(X[-1]) + np.sum(np.abs(sk), axis=0)) + np.finfo(float).tiny
            by = 8 * m * np.finfo(float).eps * (np.abs(G[-1]) + np.sum(np.abs(yk), axis=0)) + np.finfo(float).tiny
            if got_s.size and not ((np.abs(got_s - exp_s) <= bs).all() and (np.abs(got_y - exp_y) <= by).all()):
                add("restore_changed_pairs", {"max_ds_over_bound": float(np.max(np.abs(got_s - exp_s) / bs)), "max_dy_over_bound": float(np.max(np.abs(got_y - exp_y) / by))}, i)
                return
            X, G, mats, maxcor = Xr, Gr, matsr, m2
            mX, mG = [np.array(v, copy=True) for v in X], [np.array(v, copy=True) for v in G]
        # ---- oracle after the operation
        if len(X) != len(mX) or any(a.tobytes() != b.tobytes() for a, b in zip(X, mX)) or any(a.tobytes() != b.tobytes() for a, b in zip(G, mG)):
            add("stored_points_differ_from_model", {"stored": len(X), "model": len(mX)}, i)
            return
        res = check_memory(X, G, mats, maxcor, eps, stats)
        stats["or.memory_states"] += 1
        for clause, w in res:
            add(clause, w, i)
        if res:
            return
        if any(k == "acc" for k in kinds) and any(k in ("rej", "res") for k in kinds):
            keys.add("%d|%d|%g|%s|%d" % (n, maxcor, eps, "-".join(kinds[-3:]), before_pairs))


def execute_live(plan, stats, keys, viol):
    problem = build_problem(plan["problem"])
    cfg = dict(plan["cfg"])
    eps = float(cfg.get("eps_SY", 2.2e-16))
    pattern = []

    def on_update(act, a, k, X, G, mats, accepted, pre):
        maxcor = a[4] if len(a) > 4 else k["maxcor"]
        if not accepted:
            stats["probe.live_rejected_update"] += 1
            if mats_fingerprint(X, G, mats) != pre:
                viol.append({"clause": "rejected_update_touched_memory", "witness": {"live": True, "update_no": len(act.up_log)}})
        pattern.append("a" if accepted else "r")
        res = check_memory(X, G, mats, maxcor, eps, stats, check_matrix=len(X) > 1)
        stats["or.memory_states"] += 1
        stats["or.live_updates"] += 1
        for clause, w in res:
            w = dict(w)
            w.update(live=True, update_no=len(act.up_log))
            viol.append({"clause": clause, "witness": w})

    def on_use(act, X, G, mats, info):
        # what the solver is about to compute its step with (every iteration, also the ones that
        # follow a memory reset, a restore or a rewrite of the history)
        stats["or.matrices_at_use_site"] += 1
        if len(X) != len(G):
            res = [("deques_out_of_step", {"len_X": len(X), "len_G": len(G)})]
        elif len(X) <= 1:
            res = []
            if mats.use_factor and np.any(mats.W):
                res = [("matrix_built_from_other_pairs", {"W_shape": list(mats.W.shape), "pairs": 0})]
        else:
            res = check_memory(X, G, mats, int(info["maxcor"]), eps, stats)
        for clause, w in res:
            w = dict(w)
            w.update(live=True, where="use site", iteration=info.get("nit"))
            viol.append({"clause": clause, "witness": w})

    sw = plan.get("switch")
    switch_info = {"fired": False}

    def world():
        if sw is None:
            return None
        from . import c13
        from ..world import World

        return World(rewriter=c13.make_rewriter(problem, sw, switch_info))

    blob = None
    if plan.get("restart_at"):
        c = dict(cfg)
        c["maxiter"] = int(plan["restart_at"])
        c["update"] = None
        P = Act(problem, c, on_update=on_update, on_use=on_use).run()
        stats["activations"] += 1
        if P.result is not None:
            blob = Store.dumps(P.result)
            cfg["maxiter"] = int(P.result.nit) + int(cfg["maxiter"])
            pattern.append("|")
            if cfg.get("scaler") is not None:
                cfg["scaler"] = None
    kw = {} if sw is None else {"world": world()}
    A = Act(problem, cfg, checkpoint=None if blob is None else Store.loads(blob), on_update=on_update, on_use=on_use, **kw).run()
    stats["activations"] += 1
    stats["fault.history_rewrite"] += 1 if switch_info.get("fired") else 0
    stats["nj.use_site_not_observable"] += A.fired["use_site_not_observable"]
    stats["events"] += A.n_events
    resets = sum(1 for i, t in enumerate(A.ls_log) if t[2] is None)
    stats["probe.live_memory_reset"] += resets
    spec = plan["problem"]
    if "a" in pattern:
        keys.add("live|%s|%s|%d|%g|%s|%d" % (spec["family"], spec["box"], cfg["maxcor"], eps, "".join(pattern[:6]), min(resets, 2)))
    return A.event_digest()


def execute(plan):
    stats = Counter()
    keys = set()
    viol = []
    if plan["kind"] == "model":
        execute_model(plan, stats, keys, viol)
        stats["activations"] += 1
        digest = "model:%d" % stats["or.memory_states"]
        shape = {"kind": "model", "ops": len(plan["ops"]), "n": plan["n"], "maxcor": plan["maxcor"]}
    else:
        digest = execute_live(plan, stats, keys, viol)
        shape = {"kind": "live", "family": plan["problem"]["family"]}
    return {"violations": viol[:5], "stats": stats, "keys": keys, "digest": digest, "shape": shape}
