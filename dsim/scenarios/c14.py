"""C14 - determinism, isolation, inputs untouched (DESIGN 4.8).

Schedules: 2-3 activations on baton-passing threads, the seeded scheduler picks
who runs at every actor call (and, for a share of the runs, at seeded line
steps inside lbfgsb/*); nesting inside an objective call; sequencing after
completed / crashed activations; frozen inputs; log-sink faults.
"""

from __future__ import annotations

import hashlib
from collections import Counter

import numpy as np

from ..core import choice, draw_cfg
from ..problems import FAMILIES, build_problem, draw_problem_spec
from ..sched import Sched
from ..world import Act, Store, World
from . import c13

ID = "C14"
LEVEL = "exploration"
LEVEL_TEXT = (
    "Seeded exploration of schedules: 2-3 concurrent activations interleaved at every user-callable call (a share "
    "of the runs also pre-empted at seeded Python line steps inside lbfgsb/*), nested activations, call sequences "
    "including crashed predecessors, restarts from one frozen checkpoint object, and the iprint x logger lattice "
    "with a failing log device. Every activation must be bit-identical to its solo run and leave its inputs unchanged."
)
LEVEL_NOTE = (
    "Real threads, but the scheduler alone decides who runs (baton passing); pre-emption inside a single NumPy call "
    "is not explored. Inputs are frozen read-only: a write raises and is reported as the violation it is."
)
TECHNIQUE = "deterministic simulation: seeded thread schedules (baton passing at actor calls and line steps), nesting, frozen inputs, log-sink faults; oracle = solo-run digest"
DESIGN_REF = "DESIGN.md 4.8"
BUDGET = {
    "quick": {"plans": 4000, "wall": 90, "chunk": 4},
    "thorough": {"plans": 40000, "wall": 900, "chunk": 8},
}
RULE = (
    "one plan = (2-3 activation specs incl. restarts and scalers, schedule seed and mode, nest point, logging "
    "variants); one evaluation = one plan. Distinct non-trivial = hash of the schedule trace (for concurrent runs "
    "with at least 2 context switches), plus hash(kind of history: nest/sequence/after-crash/restart-twice/"
    "logging variant, jac modes, outcome)."
)
COMPONENTS = {
    "real": ["lbfgsb.* (all modules)", "numpy", "scipy", "threading (real threads, parked on semaphores)", "logging (real handlers)"],
    "stub": ["user callables", "thread scheduler (seeded baton passing)", "log device (write raises OSError)", "durable store"],
}
ASSUMPTIONS = ["pre-emption points are actor calls and Python line boundaries inside lbfgsb/*"]
PLAN_TIMEOUT = 600
IPRINTS = [-1, 0, 1, 50, 99, 100, 101, 1000]
LOGGERS = [None, "collect", "failing", "disabled"]


def _act_spec(rng):
    spec = draw_problem_spec(rng, list(FAMILIES), nmax=8)
    cfg = draw_cfg(rng, jac_modes=["callable"] * 6 + ["2-point", "3-point", None], allow_scaler=True)
    if cfg["jac"] != "callable" and spec["box"] == "degenerate":
        spec["box"] = "boxed"
    cfg["maxiter"] = int(rng.integers(2, 9))
    cfg["callback"] = {} if rng.random() < 0.5 else None
    restart = int(rng.integers(1, 4)) if rng.random() < 0.4 else 0
    if restart and rng.random() < 0.7:
        cfg.pop("scaler", None)
    out = {"problem": spec, "cfg": cfg, "restart_at": restart}
    if restart and rng.random() < 0.2:
        # the checkpoint already meets the target: the restart returns at once (its own exit path)
        out["restart_target_met"] = True
    if restart and rng.random() < 0.4:
        # the restart asks for fewer corrections than the checkpoint holds
        out["restart_maxcor"] = int(rng.integers(1, max(2, cfg["maxcor"])))
    if rng.random() < 0.25:
        # an update function that rewrites the gradient history (exercises the filter and its log lines)
        cfg.pop("scaler", None)
        cfg["update"] = {"mode": "arbitrary"}
        cfg["callback"] = {}
        out["switch"] = {
            "mode": "arbitrary",
            "at": int(rng.integers(2, 6)),
            "seed": int(rng.integers(0, 2**31 - 1)),
            "frac": float(rng.uniform(0.3, 0.9)),
            "touch_newest": False,
        }
    return out


def gen(rng, tier, index):
    n = int(choice(rng, [2, 2, 3]))
    acts = [_act_spec(rng) for _ in range(n)]
    if rng.random() < 0.4:
        # same dimension (and sometimes the same memory size) in every activation: scratch buffers
        # or caches keyed by shape would be shared
        for a in acts[1:]:
            if a["problem"]["family"] != "rosen" or acts[0]["problem"]["n"] >= 2:
                a["problem"]["n"] = min(acts[0]["problem"]["n"], 8) if a["problem"]["family"] == "rosen" else acts[0]["problem"]["n"]
            if rng.random() < 0.5:
                a["cfg"]["maxcor"] = acts[0]["cfg"]["maxcor"]
        acts[0]["problem"]["n"] = acts[0]["problem"]["n"]
    mode = str(choice(rng, ["uniform", "uniform", "alternate", "burst"]))
    # the schedule is materialised in the plan: who holds the baton after each yield point
    # (when the list is exhausted the current holder keeps running to completion)
    npick = 1500 if tier == "quick" else 4000
    if mode == "uniform":
        picks = [int(v) for v in rng.integers(0, n, size=npick)]
    elif mode == "alternate":
        picks = [i % n for i in range(npick)]
    else:
        picks, cur = [], 0
        while len(picks) < npick:
            cur = int(rng.integers(0, n))
            picks.extend([cur] * int(rng.integers(3, 40)))
        picks = picks[:npick]
    plan = {
        "acts": acts,
        "picks": picks,
        "sched_seed": int(rng.integers(0, 2**31 - 1)),
        "sched_mode": mode,
        "line_preempt": bool(rng.random() < (0.1 if tier == "quick" else 0.15)),
        "n_log_variants": 4 if tier == "quick" else 10,
        "fresh_interpreter": bool(rng.random() < 0.01),
        "_ints": ["n_log_variants"],
    }
    return plan


def candidates(plan):
    """Schedule first (fewer switches), then the generic moves."""
    import copy as _copy

    from ..core import generic_candidates

    picks = plan.get("picks")
    if picks:
        for keep in (0, len(picks) // 8, len(picks) // 2):
            if keep < len(picks):
                q = _copy.deepcopy(plan)
                q["picks"] = picks[:keep]
                yield q
        # merge neighbouring bursts: fewer context switches
        merged = []
        for i, v in enumerate(picks):
            merged.append(picks[i - 1] if i % 2 and i > 0 else v)
        if merged != picks:
            q = _copy.deepcopy(plan)
            q["picks"] = merged
            yield q
    for q in generic_candidates(plan):
        if "acts" in q and len(q["acts"]) < 2:
            continue
        yield q


def _prepare(spec):
    problem = build_problem(spec["problem"])
    cfg = dict(spec["cfg"])
    blob = None
    if spec.get("restart_at"):
        c = dict(cfg)
        c.update(callback=None, maxiter=int(spec["restart_at"]))
        P = Act(problem, c).run()
        if P.result is not None:
            blob = Store.dumps(P.result)
            cfg["maxiter"] = int(P.result.nit) + int(cfg["maxiter"])
            if spec.get("restart_maxcor"):
                cfg["maxcor"] = int(spec["restart_maxcor"])
            if spec.get("restart_target_met") and np.isfinite(P.result.fun):
                cfg["ftarget"] = float(P.result.fun) + 1.0 + abs(float(P.result.fun))
    return problem, cfg, blob, spec.get("switch")


def solo_digests(plan):
    """Solo digests of the activations of a plan (also run in a fresh interpreter)."""
    out = []
    for spec in plan["acts"]:
        problem, cfg, blob, sw = _prepare(spec)
        ck = None if blob is None else Store.loads(blob, frozen=True)
        kw = {}
        if sw is not None:
            kw["world"] = World(rewriter=c13.make_rewriter(problem, sw, {"fired": False}))
        out.append(_dg(Act(problem, cfg, checkpoint=ck, freeze_inputs=True, **kw).run()))
    return out


def _fresh_digests(plan):
    import json
    import os
    import subprocess
    import sys

    from ..core import jdump

    root = os.path.dirname(os.path.dirname(os.path.dirname(os.path.abspath(__file__))))
    code = (
        "import sys, json, warnings; warnings.simplefilter('ignore'); sys.path.insert(0, %r);"
        "from dsim.scenarios import c14; print('DIGESTS ' + json.dumps(c14.solo_digests(json.loads(%r))))"
    ) % (root, jdump(plan))
    env = os.environ.copy()
    env["PYTHONHASHSEED"] = "987"
    try:
        pr = subprocess.run([sys.executable, "-c", code], capture_output=True, text=True, env=env, timeout=500)
    except subprocess.TimeoutExpired:
        return None
    for ln in pr.stdout.splitlines():
        if ln.startswith("DIGESTS "):
            return json.loads(ln[8:])
    raise RuntimeError("fresh interpreter probe failed: " + (pr.stdout + pr.stderr)[-500:])


def _dg(a):
    return a.result_digest() + "/" + a.event_digest()


def execute(plan):
    stats = Counter()
    keys = set()
    viol = []
    rng = np.random.Generator(np.random.PCG64([int(plan["sched_seed"]), 31]))

    def add(clause, witness):
        viol.append({"clause": clause, "witness": witness})

    prepared = [_prepare(s) for s in plan["acts"]]

    def mk(i, **kw):
        problem, cfg, blob, sw = prepared[i]
        ck = None if blob is None else Store.loads(blob, frozen=True)
        cfg = dict(cfg)
        cfg.update(kw.pop("cfg_update", {}))
        if sw is not None and "world" not in kw:
            kw["world"] = World(rewriter=c13.make_rewriter(problem, sw, {"fired": False}))
        return Act(problem, cfg, checkpoint=ck, aid=i, freeze_inputs=True, **kw)

    def check_inputs(a, tag):
        if a.exc is not None and "read-only" in str(a.exc):
            add("writes_to_input", {"where": tag, "exception": repr(a.exc)[:200], "restart": a.checkpoint is not None})
            return False
        if a.inputs_before != a.inputs_after:
            add("input_modified", {"where": tag, "restart": a.checkpoint is not None})
            return False
        if a.globals_changed:
            add("process_wide_setting_changed", {"where": tag, "settings": a.globals_changed})
            return False
        return True

    # ---- solo references
    solo = []
    ok = True
    for i in range(len(prepared)):
        a = mk(i).run()
        stats["activations"] += 1
        stats["events"] += a.n_events
        if not check_inputs(a, "solo act %d" % i):
            ok = False
        elif a.result is None:
            stats["nj.solo_raised"] += 1
            ok = False
        solo.append(a)
    if not ok:
        return {"violations": viol, "stats": stats, "keys": keys, "digest": "|".join(_dg(a) for a in solo)}
    ref = [_dg(a) for a in solo]
    if plan.get("fresh_interpreter"):
        got = _fresh_digests(plan)
        stats["or.fresh_interpreter"] += 1 if got is not None else 0
        stats["nj.fresh_interpreter_timeout"] += 1 if got is None else 0
        if got is not None and got != ref:
            add("differs_from_fresh_process", {"here": [r[:12] for r in ref], "fresh": [g[:12] for g in got]})
    # repeated call, same arguments
    again = mk(0).run()
    stats["activations"] += 1
    if _dg(again) != ref[0]:
        add("repeat_differs", {"act": 0})

    # ---- concurrent, seeded schedule
    S = Sched(len(prepared), seed=plan["sched_seed"], mode=plan["sched_mode"], picks=plan.get("picks"))
    conc = []
    for i in range(len(prepared)):
        kw = {}
        if plan.get("line_preempt"):
            every = int(rng.integers(7, 60))

            def on_step(nstep, i=i, every=every):
                if nstep % every == 0:
                    S.yield_(i)

            kw["trace"] = {"on_step": on_step}
        conc.append(mk(i, sched=S, tid=i, **kw))
    S.run([a.run for a in conc])
    stats["activations"] += len(conc)
    stats["fault.preempt"] += len(S.trace)
    stats["fault.context_switch"] += S.switches
    stats["line_steps"] += sum(a.line_steps for a in conc)
    stats["probe.line_preempted_plan"] += 1 if plan.get("line_preempt") else 0
    for i, a in enumerate(conc):
        stats["events"] += a.n_events
        check_inputs(a, "concurrent act %d" % i)
        if _dg(a) != ref[i]:
            add(
                "interleaving_changed_result",
                {"act": i, "solo": ref[i][:16], "interleaved": _dg(a)[:16], "switches": S.switches, "mode": plan["sched_mode"]},
            )
    if S.switches >= 2:
        keys.add("sched:" + hashlib.sha256(bytes(bytearray(t % 256 for t in S.trace))).hexdigest()[:16])

    # ---- concurrent with a casualty: one activation is killed at a seeded event (or fails with an
    # exception of the user code) while the others keep running; the survivors must be untouched
    if len(prepared) >= 2:
        victim = int(rng.integers(0, len(prepared)))
        ne_v = solo[victim].n_events
        if ne_v >= 1:
            e_v = int(rng.integers(1, ne_v + 1))
            how = "crash" if rng.random() < 0.5 else "raise"
            S2 = Sched(len(prepared), seed=plan["sched_seed"] + 1, mode=plan["sched_mode"], picks=plan.get("picks"))
            conc2 = []
            for i in range(len(prepared)):
                flt = []
                if i == victim:
                    if how == "crash":
                        flt = [{"kind": "crash", "at": e_v}]
                    else:
                        nf = int(solo[victim].counts["fun"])
                        flt = [{"kind": "raise", "actor": "fun", "at": int(rng.integers(1, nf + 1)), "exc": "InjectedError"}] if nf else []
                conc2.append(mk(i, sched=S2, tid=i, faults=flt))
            S2.run([a.run for a in conc2])
            stats["activations"] += len(conc2)
            stats["fault.crash_while_interleaved"] += conc2[victim].fired["crash"] + conc2[victim].fired["raise"]
            for i, a in enumerate(conc2):
                if i == victim:
                    continue
                if _dg(a) != ref[i]:
                    add(
                        "casualty_changed_survivor",
                        {"survivor": i, "victim": victim, "how": how, "switches": S2.switches},
                    )
            # and the victim's own repeat afterwards is clean
            again_v = mk(victim).run()
            stats["activations"] += 1
            if _dg(again_v) != ref[victim]:
                add("history_changed_result", {"sequence": "victim killed while interleaved, then repeated"})
            keys.add("casualty|%s|%s|%s" % (how, bool(conc2[victim].fired["crash_in_ls"] or conc2[victim].fired["raise_in_ls"]), prepared[victim][1]["jac"]))

    # ---- nesting: one activation runs to completion inside an objective call of another
    inner_i = next((i for i, pr in enumerate(prepared) if pr[2] is None and pr[3] is None), None)
    if inner_i is None:
        stats["nj.nesting_no_fresh_plain_activation"] += 1
    else:
        outer_i = 0 if inner_i != 0 else 1
        nfun = int(solo[outer_i].counts["fun"])
        if nfun >= 1:
            j = int(rng.integers(1, nfun + 1))
            sw_o = prepared[outer_i][3]
            W = World(rewriter=None if sw_o is None else c13.make_rewriter(prepared[outer_i][0], sw_o, {"fired": False}))
            sub = {"problem": plan["acts"][inner_i]["problem"], "cfg": prepared[inner_i][1]}
            outer = mk(outer_i, faults=[{"kind": "nest", "actor": "fun", "at": j, "plan": sub}], world=W).run()
            stats["activations"] += 2
            stats["fault.nest"] += outer.fired["nest"]
            if outer.fired["nest"]:
                inner = W.nested[0]
                if _dg(outer) != ref[outer_i]:
                    add("nesting_changed_result", {"who": "outer", "at_fun_call": j})
                if inner.result_digest() != solo[inner_i].result_digest() or inner.event_digest() != solo[inner_i].event_digest():
                    add("nesting_changed_result", {"who": "inner", "at_fun_call": j})
                keys.add("nest|%s|%s|%s|%s" % (prepared[outer_i][1]["jac"], prepared[inner_i][1]["jac"], bool(outer.fired["nest_in_ls"]), prepared[outer_i][2] is not None))

    # ---- sequencing: A, B, A ; A after a crashed / interrupted B
    b = mk(1).run()
    a2 = mk(0).run()
    stats["activations"] += 2
    if _dg(a2) != ref[0] or _dg(b) != ref[1]:
        add("history_changed_result", {"sequence": "A,B,A"})
    ne = solo[1].n_events
    if ne >= 1:
        e = int(rng.integers(1, ne + 1))
        cr = mk(1, faults=[{"kind": "crash", "at": e}]).run()
        a3 = mk(0).run()
        stats["activations"] += 2
        stats["fault.crash"] += cr.fired["crash"]
        if _dg(a3) != ref[0]:
            add("history_changed_result", {"sequence": "A, B crashed at event %d, A" % e})
        keys.add("aftercrash|%s|%s" % (prepared[0][1]["jac"], bool(cr.fired["crash_in_ls"])))

    # ---- restarting twice from the same checkpoint object
    for i, (problem, cfg, blob, _sw) in enumerate(prepared):
        if blob is None or _sw is not None:
            continue
        ck = Store.loads(blob, frozen=True)
        r1 = Act(problem, cfg, checkpoint=ck, freeze_inputs=True).run()
        r2 = Act(problem, cfg, checkpoint=ck, freeze_inputs=True).run()
        stats["activations"] += 2
        stats["or.restart_twice"] += 1
        if check_inputs(r1, "restart twice #1") and check_inputs(r2, "restart twice #2"):
            if _dg(r1) != _dg(r2) or _dg(r1) != ref[i]:
                add("restart_twice_differs", {"act": i})
            if Store.dumps(ck) != Store.dumps(Store.loads(blob)):
                add("checkpoint_modified", {"act": i})
        keys.add("restart2|%s|%s" % (cfg["jac"], cfg.get("scaler") is not None))

    # ---- logging configuration has no influence on numerical output
    combos = [(ip, lg) for ip in IPRINTS for lg in LOGGERS]
    pick = rng.choice(len(combos), size=min(int(plan["n_log_variants"]), len(combos)), replace=False)
    for pi in pick:
        ip, lg = combos[int(pi)]
        v = mk(0, cfg_update={"iprint": ip, "logger": lg}).run()
        stats["activations"] += 1
        stats["fault.log_fail"] += v.fired["log_fail"]
        stats["or.logging_variant"] += 1
        if v.globals_changed:
            add("process_wide_setting_changed", {"where": "iprint=%s logger=%s" % (ip, lg), "settings": v.globals_changed})
        if v.result is None and v.exc is not None and "read-only" not in str(v.exc):
            add("logging_raised", {"iprint": ip, "logger": lg, "exception": repr(v.exc)[:200]})
        elif _dg(v) != ref[0]:
            add("logging_changed_result", {"iprint": ip, "logger": lg})
        keys.add("log|%s|%s|%s" % (ip, lg, prepared[0][1]["jac"]))
    shape = {"activations": len(prepared), "schedule_picks": len(S.trace), "switches": S.switches}
    return {"violations": viol, "stats": stats, "keys": keys, "digest": "|".join(ref) + "|" + ",".join(map(str, S.trace[:200])), "shape": shape}
