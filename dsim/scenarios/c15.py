"""C15 - the function wrapper under call histories and caller faults (DESIGN 4.9).

Model-based stateful simulation of ScalarFunction (built by prepare_scalar_function):
operation histories over {fun, grad, fun_and_grad, set_scale} x a 3-point alphabet
(+ fresh points), with caller-side faults (array mutated after the call, objective
scribbling on its argument, reused gradient buffer, aliased / non-contiguous views,
user function raising at its j-th call), against a memo-cell reference model.
Exhaustive blocks enumerate every history of a given length.
"""

from __future__ import annotations

import copy
import struct
from collections import Counter

import numpy as np

from lbfgsb.scalar_function import prepare_scalar_function

from ..core import choice
from ..world import InjectedError

ID = "C15"
LEVEL = "exploration"
LEVEL_TEXT = (
    "Model-based exploration of call histories on the wrapper: exhaustive enumeration of all histories over "
    "{fun, grad, fun_and_grad} x 3 points up to a length (quick: 4, thorough: 6 for a callable gradient, 5 in "
    "finite-difference modes) plus seeded longer histories with scale changes and caller-side faults. After every "
    "operation the answer is compared bit-for-bit with a fresh evaluation by the harness and the counters with the "
    "log of user-function calls."
)
LEVEL_NOTE = (
    "In finite-difference modes the expected gradient is what a brand-new wrapper of the same implementation (same "
    "options, nothing memoised) returns at the point, so the comparison is exact in all modes and judges staleness and "
    "counting, not the differencing scheme (that is C16, not applicable). The point alphabet has no NaN and no 0.0/-0.0 twins."
)
TECHNIQUE = "deterministic simulation: stateful operation/fault histories against an executable memo-cell reference model (exhaustive short histories + seeded long ones)"
DESIGN_REF = "DESIGN.md 4.9"
BUDGET = {
    "quick": {"plans": 5000, "wall": 90, "chunk": 10},
    "thorough": {"plans": 40000, "wall": 900, "chunk": 16},
}
RULE = (
    "one plan = either an exhaustive block (all histories of length L over 3 ops x 3 points, one gradient mode) or "
    "60 seeded histories of length 1-12 with faults; evaluations counts plans, histories are counted in "
    "coverage.oracle_evaluations.histories. Distinct non-trivial = distinct (gradient mode, operation shape of "
    "length <= 4 as (op, point-class) tuples, fault kinds present) among histories in which at least one request "
    "hit the memo cell (same point requested again) or a fault fired."
)
COMPONENTS = {
    "real": ["lbfgsb.scalar_function (ScalarFunction, prepare_scalar_function)", "scipy approx_derivative"],
    "stub": ["user objective/gradient (pure closed-form functions, logged)", "caller (operation generator, aliasing faults)", "reference memo-cell model"],
}
ASSUMPTIONS = [
    "fresh evaluation = the same pure Python function called by the harness on a private copy of the point; in finite-difference modes the gradient a brand-new wrapper with the same options returns there",
    "'the point it was last evaluated at' is read as the wrapper's memo: a request at another point in between (fun(a), grad(b), fun(a)) legitimately re-evaluates at a",
    "a user call that raised may or may not be counted (completed <= counter <= started)",
]
OPS = ("fun", "grad", "fun_and_grad")
MODES = ("callable", None, "2-point", "3-point")


# ------------------------------------------------------------------- the world
class UserCode:
    """Pure objective/gradient with a call log and injectable faults."""

    def __init__(self, n, pseed):
        rng = np.random.Generator(np.random.PCG64([int(pseed), 15]))
        self.n = n
        m = rng.standard_normal((n, n))
        self.a = m @ m.T / n + np.eye(n)
        self.w = rng.uniform(0.5, 2.0, size=n)
        self.fun_calls = []  # argument bytes of every objective call started
        self.completed = []  # argument bytes of every objective call that returned
        self.grad_calls = []
        self.grad_completed = []
        self.raise_fun_at = None
        self.raise_grad_at = None
        self.scribble = False
        self.reuse_buf = False
        self._buf = None
        self.fun_buffer = False
        self._fbuf = None

    def f_pure(self, x):
        return float(0.5 * x.dot(self.a @ x) + np.sum(self.w * np.sin(x)))

    def g_pure(self, x):
        return self.a @ x + self.w * np.cos(x)

    def fun(self, x):
        self.fun_calls.append(np.asarray(x, dtype=float).tobytes())
        if self.raise_fun_at is not None and len(self.fun_calls) == self.raise_fun_at:
            raise InjectedError("fun#%d" % len(self.fun_calls))
        v = self.f_pure(np.array(x, dtype=float, copy=True))
        self.completed.append(self.fun_calls[-1])
        if self.scribble:
            x[:] = 12345.678
        if self.fun_buffer:
            if self._fbuf is None:
                self._fbuf = np.empty(1)
            self._fbuf[0] = v  # one preallocated output array, reused by every call
            return self._fbuf
        return v

    def grad(self, x):
        self.grad_calls.append(np.asarray(x, dtype=float).tobytes())
        if self.raise_grad_at is not None and len(self.grad_calls) == self.raise_grad_at:
            raise InjectedError("grad#%d" % len(self.grad_calls))
        g = self.g_pure(np.array(x, dtype=float, copy=True))
        self.grad_completed.append(self.grad_calls[-1])
        if self.scribble:
            x[:] = 12345.678
        if self.reuse_buf:
            if self._buf is None:
                self._buf = np.empty_like(g)
            self._buf[:] = g
            return self._buf
        return g


def make_points(n, pseed, bounds_kind):
    rng = np.random.Generator(np.random.PCG64([int(pseed), 16]))
    lb = np.full(n, -np.inf)
    ub = np.full(n, np.inf)
    if bounds_kind != "none":
        lb = rng.uniform(-3.0, -1.0, size=n)
        ub = rng.uniform(1.0, 3.0, size=n)
    pts = [rng.uniform(-0.9, 0.9, size=n) for _ in range(3)]
    if bounds_kind == "touching":
        # points on / next to the bounds exercise one-sided stencils
        pts[1] = np.where(rng.random(n) < 0.5, lb, pts[1])
        pts[2] = np.where(rng.random(n) < 0.5, ub - 1e-9, pts[2])
    return pts, lb, ub


def b64(v):
    return struct.pack("<d", float(v))


def run_history(mode, n, pseed, bounds_kind, fd_opts, ops, stats):
    """Execute one history on the real wrapper next to the model; return violations."""
    user = UserCode(n, pseed)
    pts, lb, ub = make_points(n, pseed, bounds_kind)
    fresh_rng = np.random.Generator(np.random.PCG64([int(pseed), 17]))
    eps = fd_opts.get("eps", 1e-8)
    rel = fd_opts.get("rel_step")
    x0 = np.array(pts[0], copy=True)
    sf = prepare_scalar_function(
        user.fun,
        x0,
        jac=user.grad if mode == "callable" else mode,
        bounds=(lb, ub),
        epsilon=eps,
        finite_diff_rel_step=rel,
    )
    fd = mode != "callable"
    # reference model: memo cell, counters, scale
    cell_x = x0.tobytes()
    has_f = False
    has_g = False
    scale = 1.0
    n_grad_comp = 0  # gradient computations started (model)
    n_grad_done = 0  # ... and completed
    viol = []
    hit_cache = False
    last_grad = [None]  # the gradient array most recently handed to the caller
    live = {"live0": x0}  # arrays the caller still owns, by name (incl. the one given to the constructor)

    def fresh_g(x):
        xc = np.array(x, dtype=float, copy=True)
        if not fd:
            return user.g_pure(xc)
        # "fresh evaluation" in a finite-difference mode = what a brand-new wrapper (same options, pure
        # user function, nothing memoised) answers at that point: independent of the differencing route
        sf2 = prepare_scalar_function(
            lambda z: user.f_pure(np.array(z, dtype=float, copy=True)),
            np.array(xc, copy=True),
            jac=mode,
            bounds=(lb, ub),
            epsilon=eps,
            finite_diff_rel_step=rel,
        )
        return np.array(sf2.grad(np.array(xc, copy=True)), dtype=float, copy=True)

    for step, op in enumerate(ops):
        kind = op["op"]
        if kind == "set_scale":
            scale = float(op["s"])
            sf.scaling_factor = scale
            continue
        if kind == "fault":
            # caller / user side faults that change the environment, not a request
            what = op["what"]
            stats["fault." + what] += 1
            if what == "mutate_passed_array" and live:
                names = sorted(live)
                name = names[(step + int(op.get("skip", 0))) % len(names)]
                live[name][:] = live[name] * 0.5 + 0.123  # caller overwrites the array it passed
            elif what == "mutate_returned" and last_grad[0] is not None:
                # the caller works in place on the gradient array it was handed (as the solver does)
                last_grad[0][:] = last_grad[0] * -3.0 + 1.0
            elif what == "fun_buffer_on":
                user.fun_buffer = True
            elif what == "scribble_on":
                user.scribble = True
            elif what == "reuse_buf_on" and not fd:
                user.reuse_buf = True
            elif what == "raise_next_fun":
                user.raise_fun_at = len(user.fun_calls) + 1 + int(op.get("skip", 0))
            elif what == "raise_next_grad" and not fd:
                user.raise_grad_at = len(user.grad_calls) + 1
            continue
        # ---- a request
        p = op["p"]
        if p == "fresh":
            x = fresh_rng.uniform(-0.9, 0.9, size=n)
        elif isinstance(p, str) and p.startswith("twin"):
            # one ulp away from an alphabet point in one coordinate: a different point
            x = np.array(pts[int(p[4:])], copy=True)
            x[0] = np.nextafter(x[0], np.inf)
        elif isinstance(p, str) and p.startswith("near"):
            x = np.array(pts[int(p[4:])], copy=True) * (1.0 + 1e-9)
        elif isinstance(p, str) and p.startswith("live"):
            if p not in live:
                continue
            x = live[p]
        else:
            x = np.array(pts[int(p)], copy=True)
        if not ((x >= lb).all() and (x <= ub).all()):
            np.clip(x, lb, ub, out=x)  # requests outside the box are a caller error, not generated
        how = op.get("as", "copy")
        if how == "view":
            big = np.empty((n, 2))
            big[:, 0] = x
            big[:, 1] = -7.0
            x = big[:, 0]  # non-contiguous view holding the same values
        elif how == "keep":
            live["live%d" % (len(live) % 2)] = x
        elif how == "float32":
            x = x.astype(np.float32)  # another dtype: the requested point is its float64 value
            if not ((x >= lb).all() and (x <= ub).all()):
                x = np.clip(x.astype(float), lb, ub)
        elif how == "readonly":
            x = np.array(x, copy=True)
            x.flags.writeable = False
        elif how == "list":
            x = [float(v) for v in x]
        xb = np.ascontiguousarray(x, dtype=float).tobytes()
        x_req = np.array(x, dtype=float, copy=True)
        model_has_f = cell_x == xb and has_f
        model_has_g = cell_x == xb and has_g
        if cell_x == xb and (has_f or has_g):
            hit_cache = True
        nf0, ng0, nc0 = len(user.fun_calls), len(user.grad_calls), len(user.completed)
        raised = None
        try:
            if kind == "fun":
                out = sf.fun(x)
            elif kind == "grad":
                out = sf.grad(x)
            else:
                out = sf.fun_and_grad(x)
        except InjectedError as e:
            raised = e
            stats["fault.raise_fired"] += 1
        except Exception as e:  # noqa: BLE001 - a valid request must not fail
            viol.append({"clause": "request_raised", "witness": {"step": step, "op": kind, "point": p, "mode": str(mode), "exception": repr(e)[:200], "ops": ops[: step + 1]}})
            break
        calls_here = user.fun_calls[nf0:]
        at_base = sum(1 for c in calls_here if c == xb)
        w = {"step": step, "op": kind, "point": p, "mode": str(mode), "ops": ops[: step + 1]}
        # model transition (identical whether or not the user function raised: only
        # evaluations that completed may be kept, nothing half-done may be served)
        if cell_x != xb:
            cell_x, has_f, has_g = xb, False, False
        had_g = has_g
        need_g = kind in ("grad", "fun_and_grad")
        completed_base = xb in user.completed[nc0:]
        has_f = has_f or completed_base
        if need_g and not had_g:
            started = has_f if fd else (len(user.grad_calls) > ng0)
            n_grad_comp += 1 if started else 0
            n_grad_done += 1 if (started and raised is None) else 0
            has_g = raised is None
        # ---- oracle
        if model_has_f and at_base > 0:
            viol.append({"clause": "re_evaluated_at_cached_point", "witness": dict(w, calls_at_point=at_base)})
        if raised is None:
            f_fresh = user.f_pure(x_req)
            if kind in ("fun", "fun_and_grad"):
                fv = out if kind == "fun" else out[0]
                if b64(fv) != b64(f_fresh * scale):
                    viol.append({"clause": "stale_or_wrong_value", "witness": dict(w, got=float(fv), fresh_times_scale=float(f_fresh * scale), scale=scale)})
            if kind in ("grad", "fun_and_grad"):
                gv = out if kind == "grad" else out[1]
                if isinstance(gv, np.ndarray) and gv.flags.writeable:
                    last_grad[0] = gv
                g_fresh = fresh_g(x_req)
                if np.asarray(gv, dtype=float).tobytes() != (np.asarray(g_fresh) * scale).tobytes():
                    viol.append({"clause": "stale_or_wrong_gradient", "witness": dict(w, scale=scale, max_abs_diff=float(np.max(np.abs(np.asarray(gv) - g_fresh * scale))))})
        # every completed call is counted, no call is counted twice; a call that raised may be counted or not
        if not (len(user.completed) <= sf.nfev <= len(user.fun_calls)):
            viol.append({"clause": "nfev_miscounts", "witness": dict(w, nfev=int(sf.nfev), calls_started=len(user.fun_calls), calls_completed=len(user.completed))})
        hi_g = len(user.grad_calls) if not fd else n_grad_comp
        lo_g = len(user.grad_completed) if not fd else n_grad_done
        if not (lo_g <= sf.ngev <= hi_g):
            viol.append({"clause": "ngev_miscounts", "witness": dict(w, ngev=int(sf.ngev), computations_started=hi_g, computations_completed=lo_g)})
        if viol:
            break
    return viol, hit_cache


def decode(h, L):
    ops = []
    for _ in range(L):
        d = h % 9
        h //= 9
        ops.append({"op": OPS[d // 3], "p": d % 3})
    return ops


def shape_of(ops):
    last_pts = []
    out = []
    for o in ops:
        if o["op"] in OPS:
            p = o["p"]
            cls = "same" if last_pts and last_pts[-1] == p else ("seen" if p in last_pts else "new")
            out.append((o["op"], cls))
            last_pts.append(p)
        else:
            out.append((o["op"], o.get("what", "")))
    return tuple(out[:4])


# ------------------------------------------------------------------ plans
def gen(rng, tier, index):
    Lmax = 4 if tier == "quick" else 6
    n_ex_blocks = {"quick": 40, "thorough": 2000}[tier]
    base = {
        "n": int(rng.integers(1, 5)),
        "pseed": int(rng.integers(0, 2**31 - 1)),
        "bounds": str(choice(rng, ["none", "boxed", "touching"])),
        "fd": {"eps": float(choice(rng, [1e-8, 1e-6])), "rel_step": choice(rng, [None, 1e-6])},
    }
    if index < n_ex_blocks:
        mode = MODES[index % 4]
        L = Lmax if mode == "callable" or tier == "quick" else Lmax - 1
        nb = n_ex_blocks // 4
        b = index // 4
        total = 9**L
        lo = total * b // nb
        hi = total * (b + 1) // nb
        base.update({"kind": "exhaustive", "mode": mode, "L": L, "lo": lo, "hi": hi})
        # shorter histories are prefixes of longer ones only for the same mode: enumerate them too
        return base
    mode = MODES[int(rng.integers(0, 4))]
    hists = []
    for _ in range(60):
        L = int(rng.integers(1, 13))
        ops = []
        for _ in range(L):
            r = rng.random()
            if r < 0.12:
                ops.append({"op": "set_scale", "s": float(choice(rng, [1.0, 2.0, 0.5, 3.7, 1e-3, 1e3]))})
            elif r < 0.3:
                ops.append({"op": "fault", "what": str(choice(rng, ["mutate_passed_array", "mutate_returned", "mutate_returned", "scribble_on", "reuse_buf_on", "fun_buffer_on", "raise_next_fun", "raise_next_grad"])), "skip": int(rng.integers(0, 3))})
            else:
                p = choice(rng, [0, 1, 2, 0, 1, 2, "fresh", "live0", "live1", "twin0", "twin1", "near0", "near2"])
                ops.append({"op": str(choice(rng, OPS)), "p": p, "as": str(choice(rng, ["copy", "copy", "view", "keep", "float32", "readonly", "list"]))})
        hists.append(ops)
    base.update({"kind": "random", "mode": mode, "histories": hists})
    return base


def candidates(plan):
    if plan.get("kind") == "exhaustive":
        lo, hi = plan["lo"], plan["hi"]
        if hi - lo > 1:
            mid = (lo + hi) // 2
            for a, b in ((lo, mid), (mid, hi)):
                q = copy.deepcopy(plan)
                q["lo"], q["hi"] = a, b
                yield q
        return
    hs = plan.get("histories", [])
    if len(hs) > 1:
        half = len(hs) // 2
        for part in (hs[:half], hs[half:]):
            q = copy.deepcopy(plan)
            q["histories"] = part
            yield q
    elif len(hs) == 1:
        ops = hs[0]
        for i in range(len(ops)):
            q = copy.deepcopy(plan)
            q["histories"] = [ops[:i] + ops[i + 1 :]]
            yield q
    if plan.get("n", 1) > 1:
        q = copy.deepcopy(plan)
        q["n"] = 1
        yield q
    if plan.get("bounds") != "none":
        q = copy.deepcopy(plan)
        q["bounds"] = "none"
        yield q


def execute(plan):
    stats = Counter()
    keys = set()
    viol = []
    mode = plan["mode"]
    if plan["kind"] == "exhaustive":
        hists = (decode(h, plan["L"]) for h in range(plan["lo"], plan["hi"]))
        stats["probe.exhaustive_block"] += 1
    else:
        hists = iter(plan["histories"])
    digest = 0
    for ops in hists:
        v, hit = run_history(mode, plan["n"], plan["pseed"], plan["bounds"], plan["fd"], ops, stats)
        stats["or.histories"] += 1
        stats["or.operations"] += len(ops)
        stats["activations"] += 1
        if v:
            viol.extend(v[:1])
            if len(viol) >= 3:
                break
        faults = tuple(sorted({o["what"] for o in ops if o["op"] == "fault"}))
        if hit or faults:
            keys.add("%s|%s|%s" % (mode, shape_of(ops), faults))
    shape = {"kind": plan["kind"], "mode": str(mode)}
    if plan["kind"] == "exhaustive":
        shape.update(L=plan["L"], block=[plan["lo"], plan["hi"]])
    return {"violations": viol, "stats": stats, "keys": keys, "digest": "%s:%d" % (mode, stats["or.operations"]), "shape": shape}
