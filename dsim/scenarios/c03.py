"""C03 - the objective never increases (DESIGN 4.1).

Fault kind: resource exhaustion.  The evaluation budget maxfun is placed so that
it runs out at a chosen evaluation index of a reference run (typically in the
middle of a line search) and maxls caps the search; the half-finished operation
must not be committed unless it went strictly downhill.
"""

from __future__ import annotations

import struct
from collections import Counter

import numpy as np

from ..core import choice, draw_cfg, maybe_long
from ..problems import FAMILIES, QUANTISED, build_problem, draw_problem_spec
from ..world import Act, Store

ID = "C03"
LEVEL = "fault_enumeration"
LEVEL_TEXT = (
    "Fault enumeration relative to each explored run: the evaluation budget is cut at (quick: a seeded sample of, "
    "thorough: every) evaluation index of a reference run, crossed with several maxls caps, optionally after a "
    "stop/restart; the history of objective values (start, every callback state, result) must be non-increasing "
    "with exact comparisons. Sampled over problems and configurations."
)
LEVEL_NOTE = (
    "The objective actors are deterministic stubs; values are compared exactly as returned by the library "
    "(times the scaling factor it reports through the scaler actor). NaN objective values are not generated."
)
TECHNIQUE = "deterministic simulation: evaluation-budget cut at every evaluation index (interruption inside the line search), monotone-history oracle"
DESIGN_REF = "DESIGN.md 4.1"
BUDGET = {
    "quick": {"plans": 4000, "wall": 90, "chunk": 8},
    "thorough": {"plans": 40000, "wall": 900, "chunk": 4},
}
RULE = (
    "one plan = (problem, configuration, cut sample); one evaluation = one activation of minimize_lbfgsb with "
    "maxfun=c, maxls=l (c an evaluation index of the fault-free reference run). Distinct non-trivial = "
    "hash(family, box, n, maxcor, maxls, jac mode, where the cut landed (inside a line search: trial number / "
    "iteration boundary), how the last line search ended (step, None), message class), counted only for runs in "
    "which at least one iterate was accepted or the budget ran out inside a line search."
)
COMPONENTS = {
    "real": ["lbfgsb.* (all modules)", "numpy", "scipy (DCSRCH, approx_derivative)"],
    "stub": ["objective/gradient/callback/scaler actors", "budget cut = maxfun/maxls arguments", "store for the restart variant"],
}
ASSUMPTIONS = ["objective values are finite or +inf; runs in which a NaN value appears are not judged (counted)"]


def gen(rng, tier, index):
    spec = draw_problem_spec(rng, list(FAMILIES) + list(QUANTISED), nmax=10)
    jac_modes = ["callable"] * 7 + ["2-point", "3-point", None]
    cfg = draw_cfg(rng, jac_modes=jac_modes, allow_scaler=True)
    if cfg["jac"] != "callable" and spec["box"] == "degenerate":
        spec["box"] = "boxed"
    cfg["maxiter"] = int(rng.integers(2, 25))
    cfg["ftol"] = float(choice(rng, [0.0, 1e-12, 1e-5]))
    cfg["gtol"] = float(choice(rng, [0.0, 1e-8, 1e-5]))
    if rng.random() < 0.35:
        # sloppy line-search constants make WARNING / cap exits frequent
        cfg["ftol_linesearch"] = float(choice(rng, [1e-4, 1e-3, 0.3]))
        cfg["gtol_linesearch"] = float(choice(rng, [0.4, 0.9, 0.99]))
        cfg["xtol_linesearch"] = float(choice(rng, [1e-10, 0.1, 0.5]))
    if rng.random() < 0.3:
        cfg["max_steplength"] = float(choice(rng, [0.02, 0.1, 0.5, 2.0, 1e3]))
    maybe_long(rng, spec, cfg)
    maxls_alt = int(choice(rng, [1, 2, 3, 5, 20]))
    pre = bool(rng.random() < 0.25) and cfg.get("scaler") is None
    plan = {
        "problem": spec,
        "cfg": cfg,
        "maxls_alt": maxls_alt,
        "n_cuts": 12 if tier == "quick" else 400,
        "cut_cap": 40 if tier == "quick" else 400,
        "cut_seed": int(rng.integers(0, 2**31 - 1)),
        "pre_restart": int(rng.integers(1, 4)) if pre else 0,
        "_ints": ["n_cuts", "pre_restart"],
    }
    return plan


def _bits(v):
    return struct.pack("<d", float(v))


def judge(act, f_start, x_start, add, tag):
    """Monotone history oracle on one finished activation."""
    if act.result is None:
        return None
    seq = [("start", f_start)]
    xs = [np.asarray(x_start, dtype=float)]
    for rec in act.states:
        seq.append(("state%d" % rec["snap"]["nit"], rec["snap"]["fun"]))
        xs.append(rec["snap"]["x"])
    seq.append(("result", float(act.result.fun)))
    xs.append(np.asarray(act.result.x, dtype=float))
    # a step is only taken to a strictly better point: equal objective value => same iterate
    for i in range(len(seq) - 1):
        if _bits(seq[i][1]) == _bits(seq[i + 1][1]) and xs[i].shape == xs[i + 1].shape and xs[i].tobytes() != xs[i + 1].tobytes():
            add("moved_without_decrease", {"tag": tag, "from": seq[i][0], "to": seq[i + 1][0], "f": seq[i][1]})
            break
    vals = [v for _, v in seq]
    if any(np.isnan(v) for v in vals):
        return "nan"
    for (na, a), (nb, b) in zip(seq[:-1], seq[1:]):
        if b > a:
            add(
                "objective_increased",
                {"tag": tag, "from": na, "to": nb, "f_from": a, "f_to": b, "message": str(act.result.message), "sequence": vals[:12]},
            )
            break
    # every failed line search leaves the iterate where it was: the next search starts from the same point
    for a0, a1 in zip(act.ls_log[:-1], act.ls_log[1:]):
        if a0[2] is None and a0[4] is not None and a1[4] is not None and a0[4] != a1[4]:
            add("failed_search_moved_x", {"tag": tag, "where": "between two searches"})
            break
    # a failed last line search leaves the iterate where it was
    if act.ls_log and act.ls_log[-1][2] is None:
        last_x = act.states[-1]["snap"]["x"] if act.states else x_start
        if np.asarray(act.result.x).tobytes() != np.asarray(last_x).tobytes():
            add("failed_search_moved_x", {"tag": tag})
        last_f = act.states[-1]["snap"]["fun"] if act.states else f_start
        if _bits(act.result.fun) != _bits(last_f):
            add("failed_search_changed_fun", {"tag": tag, "before": last_f, "after": float(act.result.fun)})
    return "ok"


def execute(plan):
    stats = Counter()
    keys = set()
    viol = []
    problem = build_problem(plan["problem"])
    spec = plan["problem"]
    cfg = dict(plan["cfg"])
    cfg["callback"] = {}

    def add(clause, witness):
        viol.append({"clause": clause, "witness": witness})

    ck = None
    blob = None
    n0 = 0
    if plan.get("pre_restart"):
        c = dict(cfg)
        c["maxiter"] = int(plan["pre_restart"])
        c["callback"] = None
        P = Act(problem, c).run()
        stats["activations"] += 1
        if P.result is not None and P.result.nit == c["maxiter"]:
            blob = Store.dumps(P.result)
            n0 = int(P.result.nfev)
            cfg["maxiter"] = cfg["maxiter"] + c["maxiter"]
            stats["fault.stop_restart"] += 1

    def start_values(act):
        if blob is not None:
            ckp = Store.loads(blob)
            return float(ckp.fun), np.array(ckp.x, copy=True)
        first = next((e for e in act.events if e[0] == "fun"), None)
        if first is None:
            return None, None
        v = struct.unpack("<d", first[3])[0]
        return v * act.scale, np.frombuffer(first[2], dtype=float).copy()

    def run(c):
        a = Act(problem, c, checkpoint=None if blob is None else Store.loads(blob)).run()
        stats["activations"] += 1
        stats["events"] += a.n_events
        return a

    A = run(cfg)
    if A.result is None:
        stats["nj.reference_raised"] += 1
        return {"violations": viol, "stats": stats, "keys": keys, "digest": A.result_digest()}
    f_start, x_start = start_values(A)
    if f_start is None:
        return {"violations": viol, "stats": stats, "keys": keys, "digest": A.result_digest()}
    r = judge(A, f_start, x_start, add, "reference")
    if r == "nan":
        stats["nj.nan_objective"] += 1
    # positions of the line searches of the reference run in objective-evaluation numbering
    fcount = np.cumsum([1 if e[0] == "fun" else 0 for e in A.events])
    N = int(fcount[-1]) if len(fcount) else 0
    windows = []
    for ev0, ev1, step, *_rest in A.ls_log:
        f0 = int(fcount[ev0 - 1]) if ev0 >= 1 else 0
        f1 = int(fcount[ev1 - 1]) if ev1 >= 1 else 0
        windows.append((f0, f1, step))
    stats["probe.ls_none_reference"] += sum(1 for w in windows if w[2] is None)

    rng = np.random.Generator(np.random.PCG64([int(plan["cut_seed"]), 3]))
    cap = min(N, int(plan["cut_cap"]))
    cuts = list(range(1, cap + 1))
    if len(cuts) > int(plan["n_cuts"]):
        # bias the sample towards cuts that land strictly inside a line search
        inside = [c for c in cuts if any(w[0] < c < w[1] for w in windows)]
        rest = [c for c in cuts if c not in set(inside)]
        k_in = min(len(inside), (2 * int(plan["n_cuts"])) // 3)
        pick = list(rng.choice(inside, size=k_in, replace=False)) if k_in else []
        k_out = min(len(rest), int(plan["n_cuts"]) - k_in)
        pick += list(rng.choice(rest, size=k_out, replace=False)) if k_out else []
        cuts = sorted(int(c) for c in pick)
    maxls_values = sorted({int(cfg["maxls"]), int(plan["maxls_alt"])})
    for c in cuts:
        for ml in maxls_values:
            cc = dict(cfg)
            cc["maxfun"] = n0 + c
            cc["maxls"] = ml
            B = run(cc)
            stats["fault.cut"] += 1
            if B.result is None:
                stats["nj.cut_run_raised"] += 1
                continue
            fs, xs = start_values(B)
            if fs is None:
                continue
            r = judge(B, fs, xs, add, "maxfun=%d maxls=%d" % (n0 + c, ml))
            if r == "nan":
                stats["nj.nan_objective"] += 1
                continue
            land = "boundary"
            if ml == int(cfg["maxls"]):
                for wi, w in enumerate(windows):
                    if w[0] < c < w[1]:
                        land = "in_ls_trial%d" % (c - w[0])
                        stats["probe.cut_inside_linesearch"] += 1
                        break
            else:
                land = "other_maxls"
            last = "none"
            if B.ls_log:
                last = "None" if B.ls_log[-1][2] is None else "step"
                stats["probe.ls_none"] += sum(1 for t in B.ls_log if t[2] is None)
            # a search that ended on its evaluation cap
            for t in B.ls_log:
                nev = sum(1 for e in B.events[t[0] : t[1]] if e[0] == "fun")
                if nev >= min(ml, 10**9):
                    stats["probe.search_hit_cap"] += 1
            msg = str(B.result.message)
            stats["probe.abnormal_termination"] += 1 if msg.startswith("ABNORMAL") else 0
            stats["probe.memory_reset"] += sum(1 for i, t in enumerate(B.ls_log) if t[2] is None and i + 1 < len(B.ls_log))
            if B.states or land.startswith("in_ls"):
                keys.add(
                    "|".join(
                        str(v)
                        for v in (spec["family"], spec["box"], spec["n"], cfg["maxcor"], ml, cfg["jac"], land, last, msg[:12], bool(blob))
                    )
                )
    shape = {"evaluations_in_reference": N, "cuts": len(cuts), "maxls": maxls_values, "line_searches": len(windows)}
    return {"violations": viol, "stats": stats, "keys": keys, "digest": A.event_digest(), "shape": shape}
