"""C07 - the callback state as a crash checkpoint (DESIGN 4.5).

Crash points: every callback boundary, seeded event indices (the actor answering
event e raises SimCrash: the activation dies, only the durable store survives)
and seeded line steps inside lbfgsb/* (SimInterrupt through sys.settrace).
"""

from __future__ import annotations

import pickle
from collections import Counter

import numpy as np

from ..core import choice, draw_cfg
from ..oracles import DOCUMENTED_MESSAGES, MSG_ITER, compare_restart
from ..problems import FAMILIES, build_problem, draw_problem_spec
from ..world import Act, Store, snapshot, snap_diff, snap_bytes

ID = "C07"
LEVEL = "fault_enumeration"
LEVEL_TEXT = 'Fault enumeration relative to each explored run: every callback boundary plus seeded event indices and traced line steps are crash points; the activation is killed there and recovered from the durable store. Snapshot fidelity and immutability are exact comparisons; recovery is compared with the uninterrupted run.'
LEVEL_NOTE = 'Crashes are observable only at actor calls and Python line boundaries inside lbfgsb/*; reference = separate uninterrupted runs of the same code; calibrated tolerance of DESIGN 7.2 for the continuation.'
TECHNIQUE = 'deterministic simulation: crash injection at event/line indices, recovery from a simulated durable store; callbacks that overwrite their argument; evaluation budgets that run out during the explored run'
DESIGN_REF = 'DESIGN.md 4.5, 7.2'
BUDGET = {
    "quick": {"plans": 2000, "wall": 90, "chunk": 4},
    "thorough": {"plans": 12000, "wall": 900, "chunk": 8},
}
RULE = (
    "one plan = (problem, configuration, K iterations, crash sample); every callback boundary of the "
    "explored run plus seeded event indices and line steps are crash points: the activation is killed "
    "there, the newest persisted callback state is loaded from the store and the run restarted. "
    "Oracles: state_k == result of run(maxiter=k) bit-for-bit; retained state never changes; passive "
    "callback changes nothing; restart from the recovered state reproduces iterate k+1 up to rounding. "
    "Distinct non-trivial = hash(family, box, n, maxcor, jac mode, crash kind, crash landing place "
    "(inside line search or not, actor), recovered iteration k, pairs in the recovered state, verdict), "
    "counted only when the crash hit a run that had completed at least one iteration."
)
COMPONENTS = {
    "real": ["lbfgsb.* (all modules)", "numpy", "scipy (DCSRCH, approx_derivative, LbfgsInvHessProduct)"],
    "stub": ["objective/gradient/callback actors", "durable store (pickle, eager and lazy)", "crash = BaseException raised by the answering actor or at a traced line step"],
}
ASSUMPTIONS = [
    "a crash can only be observed at an actor call or at a Python line boundary inside lbfgsb/*",
    "'same continuation' is judged on the first iterate after the restart with the calibrated tolerance of DESIGN 7.2",
    "recovery with a gradient scaler is judged under C05 (known finding there), not here",
]
PLAN_TIMEOUT = 600


def gen(rng, tier, index):
    spec = draw_problem_spec(rng, list(FAMILIES), nmax=12)
    jac_modes = ["callable"] * 6 + ["2-point", "3-point", None]
    cfg = draw_cfg(rng, jac_modes=jac_modes, allow_scaler=True)
    if cfg["jac"] != "callable" and spec["box"] == "degenerate":
        spec["box"] = "boxed"
    cfg["ftol"] = float(choice(rng, [0.0, 0.0, 1e-12]))
    cfg["gtol"] = float(choice(rng, [0.0, 1e-10]))
    K = int(rng.integers(2, 10)) if tier == "quick" else int(rng.integers(2, 22))
    cfg["maxiter"] = K
    n_ev = 10 if tier == "quick" else 40
    if rng.random() < 0.2 and cfg["jac"] == "callable":
        # the evaluation budget runs out during the explored run (inside a line search, usually):
        # the iteration in progress is completed and must be reported like any other
        cfg["maxfun"] = int(rng.integers(3, 40))
    plan = {
        "problem": spec,
        "cfg": cfg,
        "crash_seed": int(rng.integers(0, 2**31 - 1)),
        "n_event_crashes": n_ev,
        "n_line_crashes": 1 if tier == "quick" else 3,
        "_ints": ["n_event_crashes", "n_line_crashes"],
    }
    return plan


def execute(plan):
    stats = Counter()
    keys = set()
    viol = []
    problem = build_problem(plan["problem"])
    cfg = dict(plan["cfg"])
    K = int(cfg["maxiter"])
    spec = plan["problem"]

    def add(clause, witness):
        viol.append({"clause": clause, "witness": witness})

    def key(*parts):
        keys.add("|".join(str(p) for p in (spec["family"], spec["box"], spec["n"], cfg["maxcor"], cfg["jac"]) + parts))

    # ---- reference run with a passive, recording callback
    iters = []

    def on_state(act, rec, state):
        # user evaluations made before this callback: identifies the iteration independently of how
        # the solver counts (the run with maxiter=k that stops right here has made exactly as many)
        rec["evals_before"] = int(act.counts["fun"] + act.counts["jac"])
        rec["iter"] = None
        rec["eager"] = pickle.dumps(state, protocol=4)

    c = dict(cfg)
    c["callback"] = {}
    A = Act(problem, c, on_state=on_state).run()
    stats["activations"] += 1
    stats["events"] += A.n_events
    if A.result is None:
        stats["nj.reference_raised"] += 1
        return {"violations": viol, "stats": stats, "keys": keys, "digest": A.result_digest()}
    E = A.n_events
    digest = A.event_digest()
    stats["probe.ls_none"] += sum(1 for t in A.ls_log if t[2] is None)
    stats["probe.rejected_update"] += sum(1 for t in A.up_log if not t[1])

    # ---- (c) a passive callback does not alter the run
    c0 = dict(cfg)
    c0["callback"] = None
    B = Act(problem, c0).run()
    stats["activations"] += 1
    stats["or.passive_callback"] += 1
    if B.result_digest() != A.result_digest():
        add("passive_callback.result", {"with": A.result_digest()[:16], "without": B.result_digest()[:16]})
    evA = [e for e in A.events if e[0] != "callback"]
    if evA != B.events:
        add("passive_callback.events", {"n_with": len(evA), "n_without": len(B.events)})
    # scribbling on the xk argument must not disturb the run either (mutate fault)
    c1 = dict(cfg)
    c1["callback"] = {"scribble": True}
    S = Act(problem, c1).run()
    stats["activations"] += 1
    stats["fault.scribble_xk"] += S.fired["scribble_xk"]
    if S.result_digest() != A.result_digest():
        add("callback_arg_isolated", {"with": A.result_digest()[:16], "scribbled": S.result_digest()[:16]})
    else:
        # ... nor the states the user keeps (the array handed over as xk is the user's to overwrite)
        for rec in S.states:
            bad = snap_diff(rec["snap"], snapshot(rec["live"]), fields=("x", "fun", "jac", "nfev", "njev", "nit", "sk", "yk"))
            if bad:
                add("snapshot.mutated_after_callback", {"k": int(rec["snap"]["nit"]), "fields": bad, "by": "the callback overwriting its xk argument"})
                break
    # every completed iteration is reported: a run that ends on a budget tested at the top of the
    # loop (iterations, evaluations) after a successful line search has told the callback about it
    # (with ftol = 0 and no target no stop test can end the last iteration before its callback)
    if (
        A.result is not None
        and str(A.result.message) in (MSG_ITER, DOCUMENTED_MESSAGES[4])
        and A.ls_log
        and A.ls_log[-1][2] is not None
        and float(cfg.get("ftol", 0.0)) == 0.0
        and cfg.get("ftarget") is None
    ):
        stats["or.last_iteration_reported"] += 1
        last = A.states[-1]["snap"] if A.states else None
        if last is None or int(last["nit"]) != int(A.result.nit) or not np.array_equal(last["x"], np.asarray(A.result.x)):
            add("last_iteration_not_reported", {"result_nit": int(A.result.nit), "last_state_nit": None if last is None else int(last["nit"]), "message": str(A.result.message), "maxfun": int(cfg.get("maxfun", 15000))})

    # ---- uninterrupted references R_k
    R = {}
    last_needed = max([r["evals_before"] for r in A.states], default=0)
    for k in range(1, K + 3):
        ck = dict(cfg)
        ck["callback"] = None
        ck["maxiter"] = k
        a = Act(problem, ck).run()
        stats["activations"] += 1
        if a.result is None:
            break
        R[k] = a
        if int(a.counts["fun"] + a.counts["jac"]) > last_needed and k >= 2 and (k - 2) in R and int(R[k - 2].counts["fun"] + R[k - 2].counts["jac"]) > last_needed:
            break  # two references beyond the last callback are enough
    # an iteration whose line search fails without a single evaluation leaves the count unchanged:
    # successive callbacks with one count are successive iterations with that count
    by_evals = {}
    for k in sorted(R):
        by_evals.setdefault(int(R[k].counts["fun"] + R[k].counts["jac"]), []).append(k)
    seen_evals = Counter()
    for rec in A.states:
        cands = by_evals.get(rec["evals_before"], [])
        j = seen_evals[rec["evals_before"]]
        seen_evals[rec["evals_before"]] += 1
        rec["iter"] = cands[j] if j < len(cands) else None
        if len(cands) > 1:
            stats["probe.iterations_with_equal_evaluation_count"] += 1
        if rec["iter"] is None:
            stats["nj.state_without_reference_run"] += 1

    # ---- (a) snapshot fidelity and (b) immutability
    for rec in A.states:
        k = rec["iter"]
        stats["or.snapshot"] += 1
        if k is not None and k in R:
            bad = snap_diff(rec["snap"], snapshot(R[k].result))
            for fld in bad:
                w = {"k": k, "field": fld}
                if fld in ("nit", "nfev", "njev"):
                    w["state"] = rec["snap"][fld]
                    w["run_maxiter_k"] = int(R[k].result[fld])
                add("snapshot." + fld, w)
        live = snapshot(rec["live"])
        lazy = snapshot(pickle.loads(pickle.dumps(rec["live"], protocol=4)))
        bad = snap_diff(rec["snap"], live, fields=("x", "fun", "jac", "nfev", "njev", "nit", "sk", "yk"))
        if bad or snap_diff(live, lazy):
            add("snapshot.mutated_after_callback", {"k": k, "fields": bad})
        key("state", k, rec["snap"]["sk"].shape[0], "ok" if not bad else "mutated")

    # ---- (d) crash and recovery
    rng = np.random.Generator(np.random.PCG64([int(plan["crash_seed"]), 11]))
    crash_points = []
    for rec in A.states:
        # the crash lands on the first event after the callback returned (an iteration boundary)
        if rec["event"] + 1 <= E:
            crash_points.append(("boundary", rec["event"] + 1))
        crash_points.append(("in_callback", rec["event"]))
    n_ev = int(plan.get("n_event_crashes", 0))
    if E > 0 and n_ev > 0:
        for e in sorted(set(int(v) for v in rng.integers(1, E + 1, size=n_ev))):
            crash_points.append(("event", e))
    recovered_cache = {}
    scaler = cfg.get("scaler") is not None
    for kind, e in crash_points:
        store = Store()
        cc = dict(cfg)
        cc["callback"] = {}
        D = Act(problem, cc, faults=[{"kind": "crash", "at": e}], store=store, on_state=on_state).run()
        stats["activations"] += 1
        stats["events"] += D.n_events
        if D.crashed is None:
            add("crash.not_propagated", {"event": e, "outcome": D.result_digest()[:60]})
            continue
        stats["fault.crash"] += 1
        stats["fault.crash_in_linesearch"] += D.fired["crash_in_ls"]
        actor = D.events[-1][0]
        # the store must hold exactly the states of the reference run's prefix
        n_states = len(store.eager)
        if kind == "in_callback":
            n_states_expected = sum(1 for r in A.states if r["event"] < e)
        else:
            n_states_expected = sum(1 for r in A.states if r["event"] < e)
        if n_states != n_states_expected:
            add("crash.store_prefix", {"event": e, "persisted": n_states, "expected": n_states_expected})
            continue
        if n_states and store.eager[-1] != A.states[n_states - 1]["eager"]:
            add("crash.store_content", {"event": e, "state_index": n_states - 1})
        # "user keeps the latest state": the lazily kept object, serialised at crash time
        if n_states:
            lazy_blob = pickle.dumps(store.lazy[-1], protocol=4)
            if snap_diff(snapshot(pickle.loads(lazy_blob)), snapshot(pickle.loads(store.eager[-1]))):
                add("snapshot.mutated_after_callback", {"event": e, "at": "crash time", "k": A.states[n_states - 1]["iter"]})
                stats["fault.lazy_persist_differs"] += 1
            stats["fault.lazy_persist"] += 1
        if n_states == 0:
            stats["probe.crash_before_first_state"] += 1
            key("crash", kind, actor, bool(D.fired["crash_in_ls"]), "fresh")
            continue
        rec = A.states[n_states - 1]
        k = rec["iter"]
        in_ls = bool(D.fired["crash_in_ls"])
        if k is None:
            continue
        if scaler:
            stats["nj.recovery_with_scaler"] += 1
            key("crash", kind, actor, in_ls, k, "scaler")
            continue
        if k not in recovered_cache:
            ref = R.get(k + 1)
            if ref is None or R.get(k) is None or ref.result.nfev <= R[k].result.nfev:
                recovered_cache[k] = ("none", {})
                stats["nj.no_next_iterate"] += 1
            else:
                verdict, info, act = compare_restart(
                    problem, cfg, store.eager[-1], np.asarray(ref.result.x, dtype=float), k + 1, plan["crash_seed"] + k, stats, ref_act=ref,
                    ref_searches_before=len(R[k].ls_log),
                )
                stats["or.recovery"] += 1
                if verdict == "ok" and act.result.nit != ref.result.nit:
                    verdict, info = "fail_nit", {"restart_nit": int(act.result.nit), "reference_nit": int(ref.result.nit)}
                recovered_cache[k] = (verdict, info)
                # the continuation, not only its first step (exact gradients, and only when the newest
                # retained point is the state's x: see DESIGN 12.3)
                ups = [u for u in A.up_log if u[0] <= rec["event"]]
                ref2 = R.get(k + 2)
                same_active = True
                if verdict == "ok":
                    xa, xr = np.asarray(act.result.x, dtype=float), np.asarray(ref.result.x, dtype=float)
                    same_active = bool(
                        np.array_equal(xa == problem.lb, xr == problem.lb) and np.array_equal(xa == problem.ub, xr == problem.ub)
                    )
                    stats["nj.active_set_knife_edge"] += 0 if same_active else 1
                if (
                    verdict == "ok"
                    and same_active
                    and cfg["jac"] == "callable"
                    and ups
                    and ups[-1][1]
                    and ref2 is not None
                    and ref2.result.nfev > ref.result.nfev
                ):
                    v2, info2, _a2 = compare_restart(
                        problem, cfg, store.eager[-1], np.asarray(ref2.result.x, dtype=float), k + 2,
                        plan["crash_seed"] + 7 * k, stats, ref_act=ref2, rel_step_tol=1e-5,
                        ref_searches_before=len(R[k].ls_log),
                    )
                    stats["or.recovery_second_iterate"] += 1
                    if v2 == "fail":
                        add("recovery.second_iterate", {"k": k, "event": e, **info2})
                if verdict == "raised":
                    add("recovery.raised", {"k": k, "event": e, **info})
                elif verdict == "fail":
                    add("recovery.next_iterate", {"k": k, "event": e, **info})
                elif verdict == "fail_nit":
                    add("recovery.nit", {"k": k, "event": e, **info})
        verdict = recovered_cache[k][0]
        if kind == "event" and any(t[0] < e <= t[1] for t in A.ls_log):
            stats["probe.crash_inside_linesearch"] += 1
        if any(up[0] < e <= r2["event"] for up, r2 in zip(A.up_log, A.states)):
            stats["probe.crash_between_update_and_callback"] += 1
        key("crash", kind, actor, in_ls, k, rec["snap"]["sk"].shape[0], verdict)

    # ---- asynchronous interruption at a line step
    n_line = int(plan.get("n_line_crashes", 0))
    if n_line > 0:
        cc = dict(cfg)
        cc["callback"] = {}
        T = Act(problem, cc, trace={}).run()
        stats["activations"] += 1
        L = T.line_steps
        stats["line_steps"] += L
        if T.result_digest() != A.result_digest():
            add("tracing_changed_run", {})
        for N in sorted(set(int(v) for v in rng.integers(1, max(2, L + 1), size=n_line))):
            store = Store()
            I = Act(problem, cc, trace={"at": N}, store=store, on_state=on_state).run()
            stats["activations"] += 1
            stats["line_steps"] += I.line_steps
            if I.crashed is None:
                add("interrupt.not_propagated", {"line_step": N, "outcome": I.result_digest()[:60]})
                continue
            stats["fault.interrupt"] += 1
            n_states = len(store.eager)
            if n_states > len(A.states) or (n_states and store.eager[-1] != A.states[n_states - 1]["eager"]):
                add("crash.store_content", {"line_step": N})
                continue
            if n_states:
                lazy_blob = pickle.dumps(store.lazy[-1], protocol=4)
                if snap_diff(snapshot(pickle.loads(lazy_blob)), snapshot(pickle.loads(store.eager[-1]))):
                    add("snapshot.mutated_after_callback", {"line_step": N, "at": "interrupt time", "k": A.states[n_states - 1]["iter"]})
                    stats["fault.lazy_persist_differs"] += 1
            key("interrupt", n_states, len(I.ls_log) % 2)

    shape = {"events": E, "states": len(A.states), "crash_points": len(crash_points)}
    return {"violations": viol, "stats": stats, "keys": keys, "digest": digest, "shape": shape}
