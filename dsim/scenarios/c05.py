"""C05 - result coherence and conservation of counters (DESIGN 4.3).

Ground truth is the event log: every objective / gradient event holds the exact
argument bytes and the exact value the user function returned.  Histories are
chains of 1-4 planned stops and restarts from pickled checkpoints.
"""

from __future__ import annotations

import struct
from collections import Counter

import numpy as np

from ..core import choice, draw_cfg, maybe_long
from ..problems import FAMILIES, build_problem, draw_problem_spec
from ..world import Act, Store

ID = "C05"
LEVEL = "exploration"
LEVEL_TEXT = (
    "Seeded exploration of runs and restart chains in all gradient modes; the event log of the simulated user "
    "functions is the ground truth against which fun/jac of every result and of every live callback state are "
    "compared bit-for-bit, and against which the counters are balanced segment by segment (conservation)."
)
LEVEL_NOTE = (
    "Callback states are inspected inside the callback actor, on the live object. In finite-difference modes "
    "only fun and nfev are judged (jac and njev are not about user calls there)."
)
TECHNIQUE = "deterministic simulation: event log as ground truth, conservation of evaluation counters across stop/restart chains"
DESIGN_REF = "DESIGN.md 4.3"
BUDGET = {
    "quick": {"plans": 30000, "wall": 90, "chunk": 8},
    "thorough": {"plans": 120000, "wall": 900, "chunk": 16},
}
RULE = (
    "one plan = (problem, configuration, chain of stop points); one evaluation = one plan (1-5 activations). "
    "Distinct non-trivial = hash(family, box, n, jac mode, scaler kind, segment number, how the segment ended, "
    "whether the accepted step was not the last trial of its line search, number of iterations class), counted "
    "only for segments in which at least one gradient was computed or restored."
)
COMPONENTS = {
    "real": ["lbfgsb.* (all modules)", "numpy", "scipy (approx_derivative in FD modes)"],
    "stub": ["objective/gradient/callback/scaler actors (their log is the ground truth)", "durable store (pickle)"],
}
ASSUMPTIONS = ["the scaling factor is the value the scaler actor returned in the activation that produced the state"]


def gen(rng, tier, index):
    spec = draw_problem_spec(rng, list(FAMILIES), nmax=12)
    jac_modes = ["callable"] * 5 + ["2-point", "3-point", None]
    cfg = draw_cfg(rng, jac_modes=jac_modes, allow_scaler=True)
    if cfg["jac"] != "callable" and spec["box"] == "degenerate":
        spec["box"] = "boxed"
    cfg["maxiter"] = int(rng.integers(1, 14))
    maybe_long(rng, spec, cfg)
    if rng.random() < 0.4:
        # sloppy line-search constants: the accepted (lowest) trial is then often not the last one,
        # which is the path on which fun/jac must be re-evaluated at the accepted point
        cfg["ftol_linesearch"] = float(choice(rng, [1e-4, 1e-3, 0.3]))
        cfg["gtol_linesearch"] = float(choice(rng, [0.1, 0.4, 0.9]))
        cfg["xtol_linesearch"] = float(choice(rng, [1e-10, 0.1, 0.5]))
        if spec["family"] in ("qp", "softplus", "badscale"):
            spec["family"] = str(choice(rng, ["cosine", "rastrigin", "styblinski", "rosen"]))
            if spec["family"] == "rosen":
                spec["n"] = max(2, min(spec["n"], 8))
    nseg = int(choice(rng, [1, 1, 2, 2, 3, 4, 5]))
    stops = sorted(int(v) for v in rng.integers(0, cfg["maxiter"] + 1, size=nseg - 1)) if nseg > 1 else []
    plan = {
        "problem": spec,
        "cfg": cfg,
        "stops": stops,  # maxiter of every segment but the last (repeats = zero-iteration restarts)
        "cb_stop": int(rng.integers(1, 5)) if rng.random() < 0.15 else 0,
        "maxfun_cut": int(rng.integers(2, 40)) if rng.random() < 0.2 else 0,
        "_ints": ["cb_stop", "maxfun_cut"],
    }
    return plan


def _b(v):
    return struct.pack("<d", float(v))


def execute(plan):
    stats = Counter()
    keys = set()
    viol = []
    problem = build_problem(plan["problem"])
    spec = plan["problem"]
    cfg = dict(plan["cfg"])
    callable_jac = cfg["jac"] == "callable"
    fun_at = {}
    jac_at = {}

    def add(clause, witness):
        viol.append({"clause": clause, "witness": witness})

    def coherent(act, x, fun, jac, where, seg):
        """fun / jac belong to x: look the values up in the event log."""
        xb = np.ascontiguousarray(x, dtype=float).tobytes()
        s = act.scale
        cands = list(fun_at.get(xb, ())) + list(act.fun_at.get(xb, ()))
        if not cands:
            add("fun_not_evaluated_at_x", {"where": where, "segment": seg})
        elif not any(_b(v * s) == _b(fun) for _, v in cands):
            add(
                "fun_is_not_f_at_x",
                {"where": where, "segment": seg, "fun": float(fun), "f_at_x_times_scale": [float(v * s) for _, v in cands][:3], "scale": s},
            )
        if callable_jac:
            gc = list(jac_at.get(xb, ())) + list(act.jac_at.get(xb, ()))
            jb = np.ascontiguousarray(jac, dtype=float).tobytes()
            if not gc:
                add("jac_not_evaluated_at_x", {"where": where, "segment": seg})
            elif not any((g * s).tobytes() == jb for _, g in gc):
                add("jac_is_not_g_at_x", {"where": where, "segment": seg, "scale": s})
        stats["or.coherence"] += 1

    seg_no = [0]

    def on_state(act, rec, state):
        if int(state.njev) >= 1:
            coherent(act, state.x, state.fun, state.jac, "callback state nit=%d" % int(state.nit), seg_no[0])
        # counters of the live state: calls made so far in this activation
        nf = act.counts["fun"]
        ng = act.counts["jac"] if callable_jac else act.counts["approx_derivative"]
        if int(state.nfev) != act._n0 + nf:
            add("nfev_not_conserved", {"where": "callback state", "segment": seg_no[0], "nfev": int(state.nfev), "base": act._n0, "calls": nf})
        if callable_jac and int(state.njev) != act._g0 + ng:
            add("njev_not_conserved", {"where": "callback state", "segment": seg_no[0], "njev": int(state.njev), "base": act._g0, "calls": ng})

    maxiters = list(plan["stops"]) + [int(cfg["maxiter"])]
    blob = None
    digest_parts = []
    for si, mi in enumerate(maxiters):
        seg_no[0] = si
        c = dict(cfg)
        c["maxiter"] = int(mi)
        c["callback"] = {"stop_at": plan["cb_stop"]} if plan.get("cb_stop") else {}
        ck = None if blob is None else Store.loads(blob)
        if plan.get("maxfun_cut") and si == len(maxiters) - 1:
            c["maxfun"] = (0 if ck is None else int(ck.nfev)) + int(plan["maxfun_cut"])
        a = Act(problem, c, checkpoint=ck, on_state=on_state)
        a._n0 = 0 if ck is None else int(ck.nfev)
        a._g0 = 0 if ck is None else int(ck.njev)
        if ck is not None and cfg.get("scaler") is not None:
            stats["probe.restart_with_scaler"] += 1
        a.run()
        stats["activations"] += 1
        stats["events"] += a.n_events
        digest_parts.append(a.event_digest())
        if a.result is None:
            stats["nj.run_raised"] += 1
            break
        res = a.result
        if ck is not None:
            stats["fault.stop_restart"] += 1
        if int(res.njev) >= 1:
            coherent(a, res.x, res.fun, res.jac, "result", si)
        nf = a.counts["fun"]
        ng = a.counts["jac"] if callable_jac else a.counts["approx_derivative"]
        if int(res.nfev) != a._n0 + nf:
            add("nfev_not_conserved", {"where": "result", "segment": si, "nfev": int(res.nfev), "checkpoint_nfev": a._n0, "calls_since": nf})
        if not callable_jac and not (a._g0 <= int(res.njev) <= a._g0 + nf):
            # finite differences: every gradient computation costs at least one objective call
            add("njev_not_conserved", {"where": "result (finite differences)", "segment": si, "njev": int(res.njev), "checkpoint_njev": a._g0, "objective_calls_since": nf})
        if callable_jac and int(res.njev) != a._g0 + ng:
            add("njev_not_conserved", {"where": "result", "segment": si, "njev": int(res.njev), "checkpoint_njev": a._g0, "calls_since": ng})
        stats["or.conservation"] += 1
        # was some accepted step not the last trial of its line search (re-evaluation path)?
        reeval = False
        for ev0, ev1, step, *_rest in a.ls_log:
            if step is None:
                continue
            trial = [e for e in a.events[ev0:ev1] if e[0] == "fun"]
            after = a.events[ev1 : ev1 + 1]
            if after and after[0][0] == "fun" and trial and after[0][2] != trial[-1][2]:
                reeval = True
        stats["probe.accepted_step_not_last_trial"] += 1 if reeval else 0
        stats["probe.zero_iteration_segment"] += 1 if (ck is not None and int(res.nit) == int(ck.nit)) else 0
        if int(res.njev) >= 1:
            sc = cfg.get("scaler")
            keys.add(
                "|".join(
                    str(v)
                    for v in (
                        spec["family"],
                        spec["box"],
                        spec["n"],
                        cfg["jac"],
                        "none" if sc is None else ("packaged" if sc == "packaged" else "const"),
                        si,
                        str(res.message)[:14],
                        reeval,
                        min(int(res.nit), 4),
                    )
                )
            )
        for d_all, d_new in ((fun_at, a.fun_at), (jac_at, a.jac_at)):
            for k, v in d_new.items():
                d_all.setdefault(k, []).extend(v)
        blob = Store.dumps(res)
    shape = {"segments": len(maxiters), "jac": cfg["jac"], "scaler": cfg.get("scaler") is not None}
    return {"violations": viol, "stats": stats, "keys": keys, "digest": "|".join(digest_parts), "shape": shape}
