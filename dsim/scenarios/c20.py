"""C20 - failures of user callables surface unchanged, nothing left behind (DESIGN 4.11).

Fault enumeration: for each plan, an exception is injected at every call index of
every actor kind (project exception) and at seeded indices for every other type
of the alphabet; plus asynchronous interrupts at traced line steps.
"""

from __future__ import annotations

import json
import os
import subprocess
import sys
from collections import Counter

import numpy as np

from ..core import choice, draw_cfg, jdump
from ..problems import FAMILIES, build_problem, draw_problem_spec
from ..world import EXC_TYPES, Act, Store

ID = "C20"
LEVEL = "fault_enumeration"
LEVEL_TEXT = (
    "Fault enumeration relative to each explored run: every call index of every user-callable kind (objective, "
    "gradient, callback, update function, scaler, callable ftarget/gtol) of a fault-free reference run is one "
    "injection point; the exception alphabet covers every type for which lbfgsb or its dependencies contain a "
    "handler, plus asynchronous BaseExceptions and line-step interrupts. After each injection the identical "
    "fault-free call is repeated and compared with the pre-fault reference (and, sampled, with a fresh interpreter)."
)
LEVEL_NOTE = ("Exceptions are compared by exact type and args; the follow-up call is compared by result and event digests, and the "
    "process-wide settings (numpy error state and print options, warning filters, logging and the caller's logger) are compared "
    "before/after every run in which a user callable raised. Also injected: a numpy overflow inside the objective/gradient while "
    "the caller runs under np.errstate(over='raise') (the FloatingPointError must reach the caller).")
TECHNIQUE = "deterministic simulation: exception injection at every call index of every actor (raised exceptions and numpy overflow under the caller's error state), follow-up run equality, process-wide settings before/after, line-step interrupts"
DESIGN_REF = "DESIGN.md 4.11"
BUDGET = {
    "quick": {"plans": 500, "wall": 90, "chunk": 4},
    "thorough": {"plans": 20000, "wall": 900, "chunk": 2},
}
RULE = (
    "one plan = (problem, configuration with all actor kinds enabled, optional restart); one evaluation = one "
    "injected run + its follow-up. Distinct non-trivial = hash(family, jac mode, actor kind, exception type, call "
    "index class, inside a line search or not, restart or fresh, outcome class), counted only when the fault "
    "actually fired inside the activation."
)
COMPONENTS = {
    "real": ["lbfgsb.* (all modules)", "numpy", "scipy (DCSRCH, approx_derivative)"],
    "stub": ["all user callables (objective, gradient, callback, update, scaler, ftarget, gtol)", "exception injection plan", "line tracer"],
}
ASSUMPTIONS = []
PLAN_TIMEOUT = 600
ACTORS = ("fun", "jac", "callback", "update", "scaler", "ftarget", "gtol")
OTHER_TYPES = [t for t in EXC_TYPES if t != "InjectedError"]


def gen(rng, tier, index):
    spec = draw_problem_spec(rng, list(FAMILIES), nmax=8)
    jac_modes = ["callable"] * 5 + ["2-point", "3-point", None]
    cfg = draw_cfg(rng, jac_modes=jac_modes, allow_scaler=False)
    if cfg["jac"] != "callable" and spec["box"] == "degenerate":
        spec["box"] = "boxed"
    cfg["maxiter"] = int(rng.integers(1, 7))
    cfg["callback"] = {}
    cfg["update"] = {"mode": "identity"}
    restart = bool(rng.random() < 0.3)
    if not restart and rng.random() < 0.7:
        cfg["scaler"] = {"const": float(10.0 ** rng.uniform(-2, 2))}
    cfg["ftarget"] = {"callable": -1e300}
    cfg["gtol"] = {"callable": float(choice(rng, [0.0, 1e-10]))}
    cfg["ftol"] = 0.0
    if rng.random() < 0.3:
        cfg["logger"] = "collect"
        cfg["iprint"] = int(choice(rng, [-1, 0, 1, 99, 101]))
    plan = {
        "problem": spec,
        "cfg": cfg,
        "restart_at": int(rng.integers(1, 4)) if restart else 0,
        "inj_seed": int(rng.integers(0, 2**31 - 1)),
        "all_types": tier == "thorough" and bool(rng.random() < 0.25),
        "n_line": 1 if tier == "quick" else 3,
        "fresh_interpreter": bool(rng.random() < (0.02 if tier == "quick" else 0.01)),
        "_ints": ["n_line", "restart_at"],
    }
    return plan


def reference(plan):
    """The fault-free activation of a plan (also used by the fresh-interpreter probe)."""
    problem = build_problem(plan["problem"])
    cfg = dict(plan["cfg"])
    blob = None
    if plan.get("restart_at"):
        c = dict(cfg)
        c.update(callback=None, update=None, ftarget=None, gtol=0.0, maxiter=int(plan["restart_at"]), logger=None)
        P = Act(problem, c).run()
        if P.result is not None:
            blob = Store.dumps(P.result)
            cfg["maxiter"] = int(P.result.nit) + int(cfg["maxiter"])
    return problem, cfg, blob


def execute(plan):
    stats = Counter()
    keys = set()
    viol = []
    spec = plan["problem"]
    problem, cfg, blob = reference(plan)

    def add(clause, witness):
        viol.append({"clause": clause, "witness": witness})

    def run(faults=(), trace=None, ambient=None):
        ck = None if blob is None else Store.loads(blob)
        a = Act(problem, cfg, checkpoint=ck, faults=faults, trace=trace, ambient_errstate=ambient).run()
        stats["activations"] += 1
        stats["events"] += a.n_events
        return a

    A = run()
    if A.result is None:
        stats["nj.reference_raised"] += 1
        return {"violations": viol, "stats": stats, "keys": keys, "digest": A.result_digest()}
    ref_r, ref_e = A.result_digest(), A.event_digest()

    if plan.get("fresh_interpreter"):
        code = (
            "import sys, json, warnings; warnings.simplefilter('ignore'); sys.path.insert(0, %r);"
            "from dsim.scenarios import c20; from dsim.world import Act, Store;"
            "plan = json.loads(%r); p, c, b = c20.reference(plan);"
            "a = Act(p, c, checkpoint=None if b is None else Store.loads(b)).run();"
            "print('DIGEST', a.result_digest(), a.event_digest())"
        ) % (os.path.dirname(os.path.dirname(os.path.dirname(os.path.abspath(__file__)))), jdump(plan))
        env = os.environ.copy()
        env["PYTHONHASHSEED"] = "4242"
        try:
            pr = subprocess.run([sys.executable, "-c", code], capture_output=True, text=True, env=env, timeout=500)
            got = [ln.split()[1:] for ln in pr.stdout.splitlines() if ln.startswith("DIGEST")]
            if not got:
                raise RuntimeError("fresh interpreter probe failed: " + (pr.stdout + pr.stderr)[-500:])
            stats["or.fresh_interpreter"] += 1
        except subprocess.TimeoutExpired:
            got = None
            stats["nj.fresh_interpreter_timeout"] += 1
        if got is not None and got[0] != [ref_r, ref_e]:
            add("differs_from_fresh_process", {"here": ref_r[:16], "fresh": got[0][0][:16]})

    rng = np.random.Generator(np.random.PCG64([int(plan["inj_seed"]), 23]))
    injections = []
    for actor in ACTORS:
        n_calls = int(A.counts[actor])
        if n_calls == 0:
            continue
        for j in range(1, n_calls + 1):
            injections.append((actor, j, "InjectedError"))
        if plan.get("all_types"):
            for t in OTHER_TYPES:
                for j in range(1, n_calls + 1):
                    injections.append((actor, j, t))
        else:
            for t in OTHER_TYPES:
                injections.append((actor, int(rng.integers(1, n_calls + 1)), t))

    fd = cfg["jac"] != "callable"
    for actor, j, tname in injections:
        B = run(faults=[{"kind": "raise", "actor": actor, "at": j, "exc": tname}])
        if B.fired["raise"] == 0:
            stats["nj.fault_not_reached"] += 1
            continue
        stats["fault.raise"] += 1
        stats["fault.raise." + actor] += 1
        in_ls = bool(B.fired["raise_in_ls"])
        stats["probe.raise_inside_linesearch"] += 1 if in_ls else 0
        T = EXC_TYPES[tname]
        tag = "%s#%d" % (actor, j)
        w = {"actor": actor, "call_index": j, "exception": tname, "fd_mode": fd, "in_linesearch": in_ls}
        outcome = "propagated"
        if B.exc is None:
            outcome = "swallowed"
            add("exception_swallowed", dict(w, outcome=B.result_digest()[:40], message=None if B.result is None else str(B.result.message)))
        elif type(B.exc) is not T:
            outcome = "type_changed"
            add("exception_type_changed", dict(w, got=type(B.exc).__name__, got_message=str(B.exc)[:200]))
        elif B.exc.args != ("injected:%s" % tag,):
            outcome = "message_changed"
            add("exception_message_changed", dict(w, got_message=str(B.exc)[:200]))
        # nothing left behind: the identical fault-free call gives the pre-fault reference
        C = run()
        stats["or.follow_up"] += 1
        if C.result_digest() != ref_r or C.event_digest() != ref_e:
            add("state_left_behind", dict(w, reference=ref_r[:16], after=C.result_digest()[:16]))
        elif B.globals_changed:
            # a process-wide setting (numpy error state, print options, warning filters, logging) that
            # the failed call left modified: user code that depends on it (an objective guarding
            # overflow through numpy's warnings, say) no longer behaves as in a fresh process
            add("state_left_behind", dict(w, process_wide_settings=B.globals_changed))
        keys.add(
            "|".join(
                str(v)
                for v in (spec["family"], cfg["jac"], actor, tname, min(j, 4), in_ls, bool(blob), outcome)
            )
        )

    # the caller runs under np.errstate(over="raise") and the objective / gradient overflows at one call:
    # numpy raises FloatingPointError from inside the user's function, which must reach the caller
    # like any other exception (a solver that changes the error state around user calls hides it)
    RAISE_OVER = {"over": "raise"}
    A2 = run(ambient=RAISE_OVER)
    if A2.result is None or A2.result_digest() != ref_r or A2.event_digest() != ref_e:
        # the solver's own arithmetic overflows on this plan (or depends on the error state): not judged here
        stats["nj.run_differs_under_caller_errstate"] += 1
    else:
        for actor in ("fun", "jac"):
            n_calls = int(A.counts[actor])
            if n_calls == 0:
                continue
            for j in sorted(set([1, n_calls] + [int(v) for v in rng.integers(1, n_calls + 1, size=3)])):
                B = run(faults=[{"kind": "fpe", "actor": actor, "at": j}], ambient=RAISE_OVER)
                if B.fired["fpe"] == 0:
                    stats["nj.fault_not_reached"] += 1
                    continue
                stats["fault.numpy_overflow_under_raise"] += 1
                w = {"actor": actor, "call_index": j, "exception": "FloatingPointError raised by numpy inside the user's function (caller's np.errstate over='raise')", "fd_mode": fd, "in_linesearch": bool(B.fired["fpe_in_ls"])}
                if B.exc is None:
                    add("exception_swallowed", dict(w, outcome=B.result_digest()[:40]))
                elif type(B.exc) is not FloatingPointError:
                    add("exception_type_changed", dict(w, got=type(B.exc).__name__, got_message=str(B.exc)[:200]))
                keys.add("|".join(str(v) for v in (spec["family"], cfg["jac"], actor, "numpy_fpe", min(j, 4), bool(B.fired["fpe_in_ls"]), bool(blob))))

    # asynchronous interruption at traced line steps
    n_line = int(plan.get("n_line", 0))
    if n_line:
        T0 = run(trace={})
        L = T0.line_steps
        stats["line_steps"] += L
        for N in sorted(set(int(v) for v in rng.integers(1, max(2, L + 1), size=n_line))):
            I = run(trace={"at": N})
            stats["line_steps"] += I.line_steps
            if I.crashed is None:
                add("interrupt_swallowed", {"line_step": N, "outcome": I.result_digest()[:40]})
            else:
                stats["fault.interrupt"] += 1
            C = run()
            if C.result_digest() != ref_r or C.event_digest() != ref_e:
                add("state_left_behind", {"after_interrupt_at_line_step": N})
            elif I.globals_changed:
                # not judged: an asynchronous interrupt can land between the body of a `with
                # np.errstate(...)` block and its __exit__ (the same race a real KeyboardInterrupt
                # has); no Python code can restore the setting then. Synchronous exceptions of user
                # callables (what the property is about) are judged above.
                stats["nj.setting_left_by_asynchronous_interrupt"] += 1
            keys.add("|".join(str(v) for v in (spec["family"], cfg["jac"], "interrupt", min(N * 10 // max(L, 1), 9), bool(blob))))
    shape = {"injections": len(injections), "calls": {a: int(A.counts[a]) for a in ACTORS}}
    return {"violations": viol, "stats": stats, "keys": keys, "digest": ref_e, "shape": shape}
