"""The simulated world: environment actors, event log, durable store, interceptors.

One *activation* (class Act) is one call of the real ``minimize_lbfgsb``.  All
the user callables it receives are actors of the world: they log every call as
an event, answer it from the (pure) problem, and consult the fault plan to
raise, crash, stop, rewrite, mutate or yield the processor.
"""

from __future__ import annotations

import hashlib
import io
import logging
import pickle
import struct
import sys
import threading
from collections import Counter, deque

import numpy as np

import lbfgsb
import lbfgsb.main as _main
import lbfgsb.scalar_function as _sfmod
from lbfgsb.utils import get_gradient_projection_unit_scaling

from .problems import Problem, build_problem

LBFGSB_DIR = lbfgsb.__path__[0].rstrip("/") + "/"
EPS = float(np.finfo(float).eps)

# handlers must swallow device errors the way the standard library does in production
logging.raiseExceptions = False


# --------------------------------------------------------------------------- faults
class HarnessAbort(BaseException):
    """Raised by the harness itself (e.g. the per-plan alarm): never a verdict about the code under
    test, must pass through every actor and every `except` of Act.run."""


ACTIVATION_DIGESTS = []  # (result digest, event digest) of every activation of the current plan, in order


class SimCrash(BaseException):
    """Process death injected at an event index."""


class SimInterrupt(BaseException):
    """Asynchronous interruption injected at a line step inside lbfgsb/*."""


class InjectedError(Exception):
    """Project-specific exception of the simulated user code."""


class InjectedBase(BaseException):
    """Project-specific BaseException of the simulated user code."""


EXC_TYPES = {
    "InjectedError": InjectedError,
    "TypeError": TypeError,
    "ValueError": ValueError,
    "IndexError": IndexError,
    "ZeroDivisionError": ZeroDivisionError,
    "FloatingPointError": FloatingPointError,
    "LinAlgError": np.linalg.LinAlgError,
    "AssertionError": AssertionError,
    "StopIteration": StopIteration,
    "MemoryError": MemoryError,
    "KeyboardInterrupt": KeyboardInterrupt,
    "InjectedBase": InjectedBase,
    "AttributeError": AttributeError,
    "NotImplementedError": NotImplementedError,
    "RecursionError": RecursionError,
    "LookupError": LookupError,
    "ArithmeticError": ArithmeticError,
    "OSError": OSError,
    "TimeoutError": TimeoutError,
    "EOFError": EOFError,
    "BufferError": BufferError,
    "UserWarning": UserWarning,
    "RuntimeWarning": RuntimeWarning,
    "SystemExit": SystemExit,
    "GeneratorExit": GeneratorExit,
    "InjectedValueError": type("InjectedValueError", (ValueError,), {}),
    "InjectedTypeError": type("InjectedTypeError", (TypeError,), {}),
    "InjectedIndexError": type("InjectedIndexError", (IndexError,), {}),
    "InjectedLinAlgError": type("InjectedLinAlgError", (np.linalg.LinAlgError,), {}),
    "KeyError": KeyError,
    "RuntimeError": RuntimeError,
    "OverflowError": OverflowError,
}


def make_exc(name, tag):
    return EXC_TYPES[name]("injected:%s" % tag)


# --------------------------------------------------------------- current activation
_tls = threading.local()


def _stack():
    st = getattr(_tls, "stack", None)
    if st is None:
        st = _tls.stack = []
    return st


def current_act():
    st = _stack()
    return st[-1] if st else None


# ------------------------------------------------------------------- interceptors
# Observation only: each wrapper calls the original and records what it saw for
# the activation on top of this thread's stack (nothing if there is none).
_installed = {}


def _install_interceptors():
    if _installed:
        return
    orig_ls = _main.line_search
    orig_up = _main.update_lbfgs_matrices
    orig_ad = _sfmod.approx_derivative
    orig_filter = _main.make_X_and_G_respect_strong_wolfe
    _installed.update(ls=orig_ls, up=orig_up, ad=orig_ad, filt=orig_filter)

    def line_search(*a, **k):
        act = current_act()
        if act is None:
            return orig_ls(*a, **k)
        ev0 = act.n_events
        act.in_ls += 1
        try:
            r = orig_ls(*a, **k)
        finally:
            act.in_ls -= 1
        try:
            dn = float(np.max(np.abs(a[3]))) if len(a) > 3 else float(np.max(np.abs(k["d"])))
        except Exception:  # noqa: BLE001
            dn = float("nan")
        try:
            xb = hashlib.sha256(np.ascontiguousarray(a[0] if a else k["x0"], dtype=float).tobytes()).hexdigest()[:16]
        except Exception:  # noqa: BLE001
            xb = None
        try:
            x_, d_, lb_, ub_ = (np.asarray(v, dtype=float) for v in (a[0], a[3], a[4], a[5]))
            blocked = bool(np.any(((d_ > 0) & (x_ >= ub_)) | ((d_ < 0) & (x_ <= lb_))))
        except Exception:  # noqa: BLE001
            blocked = False
        try:
            # largest feasible step along d; a value one rounding below 1 makes the search refuse its
            # initial unit step without evaluating anything (stp > stpmax): decided by one ulp
            with np.errstate(divide="ignore", invalid="ignore"):
                m_ = d_ != 0
                r_ = np.where(d_[m_] > 0, (ub_ - x_)[m_] / d_[m_], (lb_ - x_)[m_] / d_[m_])
                r_ = r_[np.isfinite(r_)]
            cap = float(np.min(r_)) if r_.size else float("inf")
            near_cap = bool(1.0 - 16 * np.finfo(float).eps <= cap < 1.0)
        except Exception:  # noqa: BLE001
            near_cap = False
        act.ls_log.append((ev0, act.n_events, None if r is None else float(r), dn, xb, blocked, near_cap))
        return r

    def update_lbfgs_matrices(*a, **k):
        act = current_act()
        if act is None:
            return orig_up(*a, **k)
        X = a[2] if len(a) > 2 else k["X"]
        G = a[3] if len(a) > 3 else k["G"]
        n_before = len(X)
        last_before = X[-1] if n_before else None
        pre = None
        if act.on_update is not None:
            m0 = a[5] if len(a) > 5 else k["mats"]
            pre = mats_fingerprint(X, G, m0)
        mats = orig_up(*a, **k)
        accepted = not (len(X) == n_before and (n_before == 0 or X[-1] is last_before))
        act.up_log.append((act.n_events, accepted, len(X)))
        if act.on_update is not None:
            act.on_update(act, a, k, X, G, mats, accepted, pre)
        return mats

    def approx_derivative(*a, **k):
        act = current_act()
        if act is not None:
            act.counts["approx_derivative"] += 1
        return orig_ad(*a, **k)

    def make_X_and_G_respect_strong_wolfe(*a, **k):
        act = current_act()
        out = orig_filter(*a, **k)
        if act is not None:
            act.filter_log.append((len(a[0]), len(out[0])))
        return out

    orig_cp = _main.get_cauchy_point
    _installed.update(cp=orig_cp)

    def get_cauchy_point(*a, **k):
        # use site of the limited-memory matrices: what the solver is about to work with, next to
        # the memory it holds (read from the caller's frame: observation only, nothing is changed)
        act = current_act()
        if act is not None and act.on_use is not None:
            try:
                loc = sys._getframe(1).f_locals
                X, G = loc.get("X"), loc.get("G")
                mats = a[4] if len(a) > 4 else k.get("mats")
                info = {"maxcor": loc.get("maxcor"), "eps_SY": loc.get("eps_SY"), "nit": getattr(loc.get("istate"), "nit", None)}
            except Exception:  # noqa: BLE001
                X = G = mats = info = None
            if X is not None and G is not None and mats is not None and info["maxcor"] is not None:
                act.on_use(act, X, G, mats, info)
            else:
                act.fired["use_site_not_observable"] += 1
        return orig_cp(*a, **k)

    _main.get_cauchy_point = get_cauchy_point
    _main.line_search = line_search
    _main.update_lbfgs_matrices = update_lbfgs_matrices
    _main.make_X_and_G_respect_strong_wolfe = make_X_and_G_respect_strong_wolfe
    _sfmod.approx_derivative = approx_derivative


_install_interceptors()


# ------------------------------------------------------------------------ helpers
def mats_fingerprint(X, G, mats):
    """Exact fingerprint of the limited-memory state (deques + matrices)."""
    h = hashlib.sha256()
    for seq in (X, G):
        h.update(b"[%d]" % len(seq))
        for v in seq:
            h.update(np.ascontiguousarray(v).tobytes())
    h.update(struct.pack("<d", float(mats.theta)))
    for m in (mats.W, mats.invMfactors[0], mats.invMfactors[1]):
        h.update(repr(m.shape).encode() + np.ascontiguousarray(m).tobytes())
    return h.hexdigest()


def snapshot(res):
    """Deep, exact copy of the observable fields of a result / callback state."""
    hi = res.hess_inv
    return {
        "x": np.array(res.x, dtype=float, copy=True),
        "fun": float(res.fun),
        "jac": np.array(res.jac, dtype=float, copy=True),
        "nfev": int(res.nfev),
        "njev": int(res.njev),
        "nit": int(res.nit),
        "sk": np.array(hi.sk, dtype=float, copy=True),
        "yk": np.array(hi.yk, dtype=float, copy=True),
        "message": str(res.message),
        "success": bool(res.success),
        "status": int(res.status),
    }


_NUM_FIELDS = ("x", "fun", "jac", "nfev", "njev", "nit", "sk", "yk")


def snap_bytes(s, fields=_NUM_FIELDS + ("message", "success", "status")):
    h = hashlib.sha256()
    for k in fields:
        v = s[k]
        if isinstance(v, np.ndarray):
            h.update(k.encode() + b"%d," % v.ndim + repr(v.shape).encode())
            h.update(np.ascontiguousarray(v).tobytes())
        elif isinstance(v, float):
            h.update(k.encode() + struct.pack("<d", v))
        else:
            h.update(k.encode() + repr(v).encode())
    return h.hexdigest()


def snap_diff(a, b, fields=_NUM_FIELDS):
    """Names of fields that are not bit-identical."""
    out = []
    for k in fields:
        va, vb = a[k], b[k]
        if isinstance(va, np.ndarray):
            if va.shape != vb.shape or va.tobytes() != vb.tobytes():
                out.append(k)
        elif isinstance(va, float):
            if struct.pack("<d", va) != struct.pack("<d", vb):
                out.append(k)
        elif va != vb:
            out.append(k)
    return out


def freeze(res):
    """Make every array of a result read-only (in place) and return it."""
    for arr in (res.x, res.jac, res.hess_inv.sk, res.hess_inv.yk):
        if isinstance(arr, np.ndarray):
            arr.flags.writeable = False
    return res


def arrays_digest(*arrs):
    h = hashlib.sha256()
    for a in arrs:
        if a is None:
            h.update(b"None")
        else:
            a = np.asarray(a)
            h.update(repr((a.shape, a.dtype.str)).encode())
            h.update(np.ascontiguousarray(a).tobytes())
    return h.hexdigest()


def globals_fingerprint(logger=None):
    """Process-wide settings a library call must leave as it found them."""
    import warnings as _w

    fp = {
        "np.geterr": dict(np.geterr()),
        "np.printoptions": {k: repr(v) for k, v in sorted(np.get_printoptions().items())},
        "warnings.filters": [repr(f) for f in _w.filters],
        "logging.raiseExceptions": logging.raiseExceptions,
        "logging.root.level": logging.getLogger().level,
        "logging.root.handlers": len(logging.getLogger().handlers),
        "logging.disable": logging.root.manager.disable,
    }
    if logger is not None:
        fp["logger"] = (logger.level, len(logger.handlers), logger.disabled, logger.propagate, [h.level for h in logger.handlers])
    return fp


class Store:
    """Durable store: the only thing that survives a crash."""

    def __init__(self):
        self.eager = []  # pickles taken inside the callback
        self.lazy = []  # live objects kept by reference ("user keeps the state")

    def persist(self, state):
        self.eager.append(pickle.dumps(state, protocol=4))
        self.lazy.append(state)

    @staticmethod
    def dumps(res):
        return pickle.dumps(res, protocol=4)

    @staticmethod
    def loads(blob, frozen=False):
        res = pickle.loads(blob)
        return freeze(res) if frozen else res


class _FailingStream(io.TextIOBase):
    def __init__(self):
        self.attempts = 0

    def write(self, s):
        self.attempts += 1
        raise OSError(28, "No space left on device")

    def flush(self):
        raise OSError(28, "No space left on device")


class _Collect(logging.Handler):
    def __init__(self, sink):
        super().__init__()
        self.sink = sink

    def emit(self, record):
        self.sink.append(record.getMessage())


class LineTracer:
    """Counts line events executed inside lbfgsb/* on this thread; may interrupt."""

    def __init__(self, at=None, on_step=None):
        self.n = 0
        self.at = at
        self.on_step = on_step

    def glob(self, frame, event, arg):
        if frame.f_code.co_filename.startswith(LBFGSB_DIR):
            return self.local
        return None

    def local(self, frame, event, arg):
        if event == "line":
            self.n += 1
            if self.n == self.at:
                raise SimInterrupt("line step %d" % self.n)
            if self.on_step is not None:
                self.on_step(self.n)
        return self.local


# --------------------------------------------------------------------- activation
DEFAULT_CFG = {
    "maxcor": 10,
    "maxls": 20,
    "maxiter": 50,
    "maxfun": 15000,
    "ftol": 1e-5,
    "gtol": 1e-5,
    "ftarget": None,
    "eps_SY": 2.2e-16,
    "jac": "callable",
    "scaler": None,
    "callback": None,
    "update": None,
    "iprint": -1,
    "logger": None,
    "eps": 1e-8,
    "finite_diff_rel_step": None,
}


class Act:
    """One call of the real minimize_lbfgsb with simulated user callables."""

    def __init__(
        self,
        problem: Problem,
        cfg: dict,
        *,
        checkpoint=None,
        faults=(),
        aid=0,
        sched=None,
        tid=0,
        freeze_inputs=False,
        store=None,
        record_states=True,
        on_state=None,
        on_update=None,
        on_use=None,
        ambient_errstate=None,
        trace=None,
        world=None,
    ):
        self.problem = problem
        c = dict(DEFAULT_CFG)
        c.update(cfg)
        self.cfg = c
        self.checkpoint = checkpoint
        self.faults = list(faults)
        self.aid = aid
        self.sched = sched
        self.tid = tid
        self.freeze_inputs = freeze_inputs
        self.store = store
        self.record_states = record_states
        self.on_state = on_state
        self.on_update = on_update
        self.on_use = on_use
        self.ambient_errstate = ambient_errstate
        self.trace = trace  # None | {"count": True} | {"at": N}
        self.world = world
        # observations
        self.counts = Counter()
        self.n_events = 0
        self.events = []  # (actor, idx, arg bytes, out bytes)
        self.hash = hashlib.sha256()
        self.fun_at = {}  # x bytes -> [(event no, raw value)]
        self.jac_at = {}  # x bytes -> [(event no, raw gradient copy)]
        self.states = []
        self.ls_log = []
        self.up_log = []
        self.filter_log = []
        self.update_calls = []
        self.in_ls = 0
        self.fired = Counter()
        self.log_records = []
        self.scale = 1.0  # what the scaler actor answered
        self.stop_values = {}
        self.result = None
        self.exc = None
        self.crashed = None
        self.line_steps = 0
        self.inputs_before = None
        self.inputs_after = None
        self.globals_changed = []
        self._jac_buf = None
        self._fun_buf = None
        self._fault_idx = {}
        for f in self.faults:
            if f["kind"] in ("raise", "nest", "scribble_arg", "fpe"):
                self._fault_idx.setdefault((f["actor"], int(f["at"])), []).append(f)
        self._crash_at = None
        for f in self.faults:
            if f["kind"] == "crash":
                self._crash_at = int(f["at"])
        # environment habits of the simulated user code (legal, harmless to a correct solver):
        # the gradient function returns one reused buffer / the functions use their argument as scratch
        self._reuse_buf = any(f["kind"] == "reuse_buf" for f in self.faults) or bool(c.get("env_reuse_buf"))
        self._scribble_all = bool(c.get("env_scribble"))
        self._fstream = None

    # ---- event plumbing
    def _enter(self, actor, arg):
        self.counts[actor] += 1
        j = self.counts[actor]
        self.n_events += 1
        if self.sched is not None:
            self.sched.yield_(self.tid)
        if self._crash_at is not None and self.n_events == self._crash_at:
            self.fired["crash"] += 1
            self.fired["crash_in_ls"] += 1 if self.in_ls else 0
            self._log(actor, j, arg, b"CRASH")
            raise SimCrash("event %d (%s #%d)" % (self.n_events, actor, j))
        fl = self._fault_idx.get((actor, j))
        if fl:
            for f in fl:
                if f["kind"] == "raise":
                    self.fired["raise"] += 1
                    self.fired["raise_in_ls"] += 1 if self.in_ls else 0
                    self._log(actor, j, arg, b"RAISE:" + f["exc"].encode())
                    self.raised = (f["exc"], "%s#%d" % (actor, j))
                    raise make_exc(f["exc"], "%s#%d" % (actor, j))
                if f["kind"] == "fpe":
                    # the user's code overflows here: whether that raises is decided by numpy's
                    # error state, which belongs to the caller of the minimiser
                    self.fired["fpe"] += 1
                    self.fired["fpe_in_ls"] += 1 if self.in_ls else 0
                    self._log(actor, j, arg, b"FPE")
                    np.multiply(np.float64(1e308), np.float64(10.0))
                if f["kind"] == "nest" and self.world is not None:
                    self.fired["nest"] += 1
                    self.fired["nest_in_ls"] += 1 if self.in_ls else 0
                    self.world.run_nested(self, f)
        return j

    def _log(self, actor, j, arg, out):
        ab = b"" if arg is None else np.ascontiguousarray(arg).tobytes()
        self.events.append((actor, j, ab, out))
        self.hash.update(actor.encode() + b"#%d|" % j + ab + b"|" + out + b";")

    # ---- actors
    def _check_args(self, args):
        want = ("extra-arg", 7) if self.cfg.get("args") else ()
        if tuple(args) != want:
            raise AssertionError("user function called with args %r, expected %r" % (args, want))

    def _fun(self, x, *args):
        self._check_args(args)
        j = self._enter("fun", x)
        v = self.problem.f(x)
        xb = x.tobytes()
        self.fun_at.setdefault(xb, []).append((self.n_events, v))
        self._log("fun", j, x, struct.pack("<d", v))
        fl = self._fault_idx.get(("fun", j))
        if self._scribble_all or (fl and any(f["kind"] == "scribble_arg" for f in fl)):
            self.fired["scribble_arg"] += 1
            x[:] = np.nan
        if self.cfg.get("env_fun_buffer"):
            # the objective writes its value into one preallocated 1-element array and returns it
            if self._fun_buf is None:
                self._fun_buf = np.empty(1)
            self._fun_buf[0] = v
            self.fired["fun_buffer"] += 1
            return self._fun_buf
        return v

    def _jac(self, x, *args):
        self._check_args(args)
        j = self._enter("jac", x)
        gv = np.asarray(self.problem.g(x), dtype=float)
        xb = x.tobytes()
        self.jac_at.setdefault(xb, []).append((self.n_events, gv.copy()))
        self._log("jac", j, x, gv.tobytes())
        fl = self._fault_idx.get(("jac", j))
        if self._scribble_all or (fl and any(f["kind"] == "scribble_arg" for f in fl)):
            self.fired["scribble_arg"] += 1
            x[:] = np.nan
        if self._reuse_buf:
            if self._jac_buf is None:
                self._jac_buf = np.empty_like(gv)
            else:
                self.fired["reuse_buf"] += 1
            self._jac_buf[:] = gv
            return self._jac_buf
        return gv

    def _callback(self, xk, state):
        j = self._enter("callback", xk)
        cb = self.cfg["callback"]
        rec = {"j": j, "xk": np.array(xk, copy=True), "event": self.n_events}
        if self.record_states:
            rec["snap"] = snapshot(state)
            rec["live"] = state
        if self.store is not None:
            self.store.persist(state)
        self.states.append(rec)
        if self.on_state is not None:
            self.on_state(self, rec, state)
        if cb.get("scribble"):
            self.fired["scribble_xk"] += 1
            xk[:] = np.nan
        if cb.get("tamper"):
            # the user works destructively on the state object it was handed
            self.fired["tamper_state"] += 1
            for arr in (state.x, state.jac, state.hess_inv.sk, state.hess_inv.yk):
                try:
                    arr[...] = np.nan
                except Exception:  # noqa: BLE001 - read-only is fine too
                    pass
            state["fun"] = float("nan")
            state["nit"] = -1
        stop_at = cb.get("stop_at")
        ret = bool(stop_at is not None and j >= stop_at)
        if ret:
            self.fired["cb_true"] += 1
        self._log("callback", j, rec["xk"], b"T" if ret else b"F")
        return ret

    def _update(self, x, f0, f0_old, grad, X, G):
        j = self._enter("update", x)
        up = self.cfg["update"]
        mode = up.get("mode", "identity")
        rec = {
            "j": j,
            "event": self.n_events,
            "x": np.array(x, copy=True),
            "f0": float(f0),
            "f0_old": float(f0_old),
            "grad_in": np.array(grad, copy=True),
            "X_in": [np.array(v, copy=True) for v in X],
            "G_in": [np.array(v, copy=True) for v in G],
            "mode": "identity",
        }
        out = (f0, f0_old, grad, G)
        if mode == "identity_copy":
            # same values, new objects
            out = (f0, f0_old, np.array(grad, copy=True), deque(np.array(v, copy=True) for v in G))
        elif mode != "identity" and self.world is not None:
            out = self.world.rewrite(self, j, rec, x, f0, f0_old, grad, X, G)
        rec["f0_out"] = float(out[0])
        rec["f0_old_out"] = float(out[1])
        rec["grad_out"] = np.array(out[2], copy=True)
        rec["G_out"] = [np.array(v, copy=True) for v in out[3]]
        self.update_calls.append(rec)
        self._log(
            "update",
            j,
            x,
            rec["mode"].encode()
            + struct.pack("<dd", rec["f0_out"], rec["f0_old_out"])
            + rec["grad_out"].tobytes(),
        )
        return out

    def _scaler(self, x, grad, lb, ub):
        j = self._enter("scaler", x)
        sc = self.cfg["scaler"]
        if sc == "packaged":
            s = float(get_gradient_projection_unit_scaling(x, grad, lb, ub))
        else:
            s = float(sc["const"])
        self.scale = s
        self.scaler_args = (
            np.array(x, copy=True),
            np.array(grad, copy=True),
            np.array(lb, copy=True),
            np.array(ub, copy=True),
        )
        self._log("scaler", j, x, struct.pack("<d", s))
        return s

    def _stopcrit(self, name, value):
        def call():
            j = self._enter(name, None)
            self._log(name, j, None, struct.pack("<d", value))
            return value

        return call

    # ---- kwargs
    def kwargs(self):
        c = self.cfg
        p = self.problem
        if self.checkpoint is not None:
            x0 = self.checkpoint.x
        else:
            x0 = np.array(p.x0, copy=True)
            if c.get("x0_dtype") == "float32":
                # a caller handing single-precision data (kept only if it stays inside the box)
                x32 = x0.astype(np.float32)
                if (x32 >= p.lb).all() and (x32 <= p.ub).all():
                    x0 = x32
        bounds = None if p.bounds is None else np.array(p.bounds, copy=True)
        if bounds is not None and c.get("bounds_style") == "list_none":
            # old-style sequence of (min, max) pairs with None for "no bound"
            bounds = [
                (None if not np.isfinite(lo) else float(lo), None if not np.isfinite(hi) else float(hi))
                for lo, hi in bounds
            ]
        if self.freeze_inputs and not isinstance(bounds, list):
            if self.checkpoint is None:
                x0.flags.writeable = False
            if bounds is not None:
                bounds.flags.writeable = False
        elif self.freeze_inputs and self.checkpoint is None:
            x0.flags.writeable = False
        self._x0, self._bounds = x0, bounds
        kw = dict(
            x0=x0,
            fun=self._fun,
            bounds=bounds,
            maxcor=c["maxcor"],
            ftol=c["ftol"],
            maxiter=c["maxiter"],
            maxfun=c["maxfun"],
            maxls=c["maxls"],
            eps_SY=c["eps_SY"],
            iprint=c["iprint"],
            eps=c["eps"],
            finite_diff_rel_step=c["finite_diff_rel_step"],
        )
        for opt in ("ftol_linesearch", "gtol_linesearch", "xtol_linesearch", "max_steplength"):
            if opt in c:
                kw[opt] = c[opt]
        kw["jac"] = self._jac if c["jac"] == "callable" else c["jac"]
        if c.get("args"):
            # extra positional arguments must reach every user function unchanged
            kw["args"] = ("extra-arg", 7)
        if self.checkpoint is not None:
            kw["checkpoint"] = self.checkpoint
        ft = c["ftarget"]
        if isinstance(ft, dict):
            self.stop_values["ftarget"] = float(ft["callable"])
            kw["ftarget"] = self._stopcrit("ftarget", float(ft["callable"]))
        else:
            self.stop_values["ftarget"] = None if ft is None else float(ft)
            kw["ftarget"] = ft
        gt = c["gtol"]
        if isinstance(gt, dict):
            self.stop_values["gtol"] = float(gt["callable"])
            kw["gtol"] = self._stopcrit("gtol", float(gt["callable"]))
        else:
            self.stop_values["gtol"] = float(gt)
            kw["gtol"] = gt
        if c["scaler"] is not None:
            kw["gradient_scaler"] = self._scaler
        if c["callback"] is not None:
            kw["callback"] = self._callback
        if c["update"] is not None:
            kw["update_fun_def"] = self._update
        if c["logger"] is not None:
            lg = logging.Logger("dsim.act%d" % self.aid)
            lg.setLevel(logging.DEBUG)
            lg.propagate = False
            if c["logger"] == "collect":
                lg.addHandler(_Collect(self.log_records))
            elif c["logger"] == "failing":
                self._fstream = _FailingStream()
                lg.addHandler(logging.StreamHandler(self._fstream))
            elif c["logger"] == "disabled":
                lg.setLevel(logging.CRITICAL)
                lg.addHandler(_Collect(self.log_records))
            kw["logger"] = lg
        return kw

    def _input_digest(self):
        ck = self.checkpoint
        return arrays_digest(
            self._x0,
            None if self._bounds is None else np.array([[np.nan if v is None else v for v in row] for row in self._bounds], dtype=float) if isinstance(self._bounds, list) else self._bounds,
            None if ck is None else ck.x,
            None if ck is None else ck.jac,
            None if ck is None else ck.hess_inv.sk,
            None if ck is None else ck.hess_inv.yk,
            None if ck is None else np.array([ck.fun, ck.nfev, ck.njev, ck.nit], dtype=float),
        ) + ("" if ck is None else "|%s|%s|%s" % (ck.message, ck.get("status"), ck.get("success")))

    # ---- run
    def run(self):
        kw = self.kwargs()
        self.inputs_before = self._input_digest()
        g_before = globals_fingerprint(kw.get("logger"))
        self._printoptions_before = dict(np.get_printoptions())
        st = _stack()
        st.append(self)
        tracer = None
        old_trace = None
        if self.trace is not None:
            tracer = LineTracer(at=self.trace.get("at"), on_step=self.trace.get("on_step"))
            old_trace = sys.gettrace()
            sys.settrace(tracer.glob)
        try:
            if self.ambient_errstate:
                # the caller's own numpy error state (e.g. overflow raises) for the whole call
                with np.errstate(**self.ambient_errstate):
                    self.result = _main.minimize_lbfgsb(**kw)
            else:
                self.result = _main.minimize_lbfgsb(**kw)
        except (SimCrash, SimInterrupt) as e:
            self.crashed = e
            if isinstance(e, SimInterrupt):
                self.fired["interrupt"] += 1
        except HarnessAbort:
            raise
        except BaseException as e:  # noqa: BLE001 - recorded, judged by the oracle
            self.exc = e
        finally:
            if self.trace is not None:
                sys.settrace(old_trace)
                self.line_steps = tracer.n
            st.pop()
        self.inputs_after = self._input_digest()
        g_after = globals_fingerprint(kw.get("logger"))
        self.globals_changed = sorted(k for k in g_before if g_before[k] != g_after.get(k))
        if "np.geterr" in self.globals_changed:
            # recorded; put it back so that later activations of this worker start from the same state
            np.seterr(**g_before["np.geterr"])
        if "np.printoptions" in self.globals_changed:
            np.set_printoptions(**self._printoptions_before)
        if self._fstream is not None:
            self.fired["log_fail"] += self._fstream.attempts
        ACTIVATION_DIGESTS.append((self.result_digest(), self.event_digest()))
        return self

    # ---- digests
    def event_digest(self):
        return self.hash.hexdigest()

    def result_digest(self):
        if self.result is None:
            if self.exc is not None:
                return "EXC:%s:%s" % (type(self.exc).__name__, str(self.exc)[:200])
            return "CRASHED"
        return snap_bytes(snapshot(self.result))


class World:
    """Shared context of several activations: nested runs and objective rewrites."""

    def __init__(self, rewriter=None):
        self.nested = []
        self.rewriter = rewriter

    def run_nested(self, outer, fault):
        spec = fault["plan"]
        problem = build_problem(spec["problem"])
        inner = Act(
            problem,
            spec["cfg"],
            aid=100 + len(self.nested),
            sched=outer.sched,
            tid=outer.tid,
            freeze_inputs=outer.freeze_inputs,
        )
        inner.run()
        self.nested.append(inner)

    def rewrite(self, act, j, rec, x, f0, f0_old, grad, X, G):
        return self.rewriter(act, j, rec, x, f0, f0_old, grad, X, G)


def run_act(problem, cfg, **kw) -> Act:
    return Act(problem, cfg, **kw).run()


def pgnorm(x, g, lb, ub):
    """Harness-side infinity norm of the projected gradient."""
    return float(np.max(np.abs(np.clip(x - g, lb, ub) - x)))
