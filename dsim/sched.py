"""Seeded baton-passing scheduler: real threads, never a real choice of who runs.

Exactly one activation thread holds the baton; it gives it up only at yield
points (every actor call; optionally seeded line steps inside lbfgsb/*).  At
each yield the scheduler - a pure function of its seed, mode and the set of
live activations - picks the next holder and appends the pick to the trace.
"""

from __future__ import annotations

import threading

import numpy as np


class Sched:
    def __init__(self, n, seed=0, mode="uniform", picks=None):
        self.n = n
        self.sems = [threading.Semaphore(0) for _ in range(n)]
        self.alive = [True] * n
        self.trace = []
        self.mode = mode
        self.rng = np.random.Generator(np.random.PCG64([int(seed), 99]))
        self.picks = None if picks is None else list(picks)
        self._pi = 0
        self.done = threading.Semaphore(0)
        self.errors = []
        self.switches = 0

    def _choose(self, cur):
        alive = [i for i in range(self.n) if self.alive[i]]
        if self.picks is not None:
            nxt = None
            if self._pi < len(self.picks):
                nxt = self.picks[self._pi]
                self._pi += 1
            if nxt not in alive:
                nxt = cur if cur in alive else alive[0]
        elif self.mode == "alternate":
            later = [i for i in alive if cur is not None and i > cur]
            nxt = later[0] if later else alive[0]
        elif self.mode == "burst":
            if cur in alive and self.rng.random() < 0.92:
                nxt = cur
            else:
                nxt = alive[int(self.rng.integers(0, len(alive)))]
        else:
            nxt = alive[int(self.rng.integers(0, len(alive)))]
        self.trace.append(nxt)
        return nxt

    def yield_(self, tid):
        nxt = self._choose(tid)
        if nxt != tid:
            self.switches += 1
            self.sems[nxt].release()
            self.sems[tid].acquire()

    def _body(self, i, thunk):
        self.sems[i].acquire()
        try:
            thunk()
        except BaseException as e:  # noqa: BLE001 - harness bug, reported by the caller
            self.errors.append(e)
        finally:
            self.alive[i] = False
            if any(self.alive):
                self.sems[self._choose(None)].release()
            else:
                self.done.release()

    def run(self, thunks):
        threads = [threading.Thread(target=self._body, args=(i, t), daemon=True) for i, t in enumerate(thunks)]
        for t in threads:
            t.start()
        self.sems[self._choose(None)].release()
        self.done.acquire()
        for t in threads:
            t.join(30)
        if self.errors:
            raise self.errors[0]
        return self.trace
