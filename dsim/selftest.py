"""Self-tests: environment (setup) and determinism (same run twice, fresh interpreter,
other PYTHONHASHSEED, other worker count)."""

from __future__ import annotations

import hashlib
import json
import multiprocessing
import os
import subprocess
import sys
import time
from concurrent.futures import ProcessPoolExecutor

VERIF = os.path.dirname(os.path.dirname(os.path.abspath(__file__)))


def run_hash(out):
    """Everything a run produced (event digest, verdicts, coverage keys, counters)."""
    h = hashlib.sha256()
    h.update(str(out.get("digest", "")).encode())
    h.update(json.dumps(sorted(str(k) for k in out.get("keys", []))).encode())
    h.update(json.dumps(sorted((str(k), int(v)) for k, v in dict(out.get("stats", {})).items())).encode())
    h.update(json.dumps(sorted(v["clause"] for v in out.get("violations", []))).encode())
    return h.hexdigest()


def _hash_indices(args):
    from .runner import _exec_one

    cid, seed, tier, idxs = args
    res = {}
    for i in idxs:
        try:
            res[i] = run_hash(_exec_one(cid, seed, tier, i))
        except Exception as e:  # noqa: BLE001
            res[i] = "ERR:%r" % (e,)
    return res


def hashes(cid, seed, tier, indices, workers):
    ctx = multiprocessing.get_context("fork")
    chunks = [indices[i::workers] for i in range(workers)]
    out = {}
    with ProcessPoolExecutor(max_workers=workers, mp_context=ctx) as ex:
        for r in ex.map(_hash_indices, [(cid, seed, tier, c) for c in chunks if c]):
            out.update(r)
    return out


def _fresh(cid, seed, tier, indices, workers, hashseed):
    env = os.environ.copy()
    env["PYTHONHASHSEED"] = str(hashseed)
    code = (
        "import sys, json; sys.path.insert(0, %r); from dsim import selftest; "
        "print('HASHES ' + json.dumps(selftest.hashes(%r, %d, %r, %r, %d)))"
        % (VERIF, cid, seed, tier, list(indices), workers)
    )
    pr = subprocess.run([sys.executable, "-c", code], capture_output=True, text=True, env=env, timeout=3000)
    for ln in pr.stdout.splitlines():
        if ln.startswith("HASHES "):
            return {int(k): v for k, v in json.loads(ln[7:]).items()}
    raise RuntimeError("fresh interpreter failed: %s" % (pr.stdout + pr.stderr)[-2000:])


def determinism_of(cid, seed, tier, n, verbose=True):
    idx = list(range(n))
    a = hashes(cid, seed, tier, idx, 16)
    b = _fresh(cid, seed, tier, idx, 3, 12345)
    diff = [i for i in idx if a.get(i) != b.get(i)]
    errs = [i for i in idx if str(a.get(i, "")).startswith("ERR")]
    if verbose:
        print("determinism %s: %d runs x2 (16 workers/hashseed %s vs 3 workers/hashseed 12345, fresh interpreter): %d differ, %d errors"
              % (cid, n, os.environ.get("PYTHONHASHSEED"), len(diff), len(errs)))
        for i in diff[:5]:
            print("  run %d: %s vs %s" % (i, a.get(i), b.get(i)))
    return len(diff), len(errs)


def determinism(tier, seed):
    from .runner import CHECKS, load_scenario

    n = 200 if tier == "quick" else 2000
    bad = 0
    res = {}
    for cid in CHECKS:
        try:
            load_scenario(cid)
        except ModuleNotFoundError:
            continue
        d, e = determinism_of(cid, seed, "quick", n)
        res[cid] = {"runs": n, "differ": d, "errors": e}
        bad += d + e
    os.makedirs(os.path.join(VERIF, "evidence"), exist_ok=True)
    with open(os.path.join(VERIF, "evidence", "determinism_selftest.json"), "w") as fh:
        json.dump({"tier": tier, "seed": seed, "results": res, "at_unix": int(time.time())}, fh, indent=1)
    if bad:
        print("HARNESS-ERROR nondeterministic")
        return 2
    return 0


def setup():
    import numpy
    import scipy
    import jsonschema  # noqa: F401
    import lbfgsb

    from .runner import CHECKS, load_scenario

    print("python %s numpy %s scipy %s lbfgsb from %s" % (sys.version.split()[0], numpy.__version__, scipy.__version__, lbfgsb.__file__))
    with open(os.path.join(VERIF, "MANIFEST.json")) as fh:
        man = json.load(fh)
    jsonschema.validate(man, json.load(open("/root/.vp/MANIFEST.schema.json"))) if os.path.exists("/root/.vp/MANIFEST.schema.json") else None
    os.makedirs(os.path.join(VERIF, "evidence"), exist_ok=True)
    os.makedirs(os.path.join(VERIF, "replays"), exist_ok=True)
    bad = 0
    for cid in CHECKS:
        try:
            load_scenario(cid)
        except ModuleNotFoundError:
            continue
        d, e = determinism_of(cid, 0, "quick", 6)
        bad += d + e
    if bad:
        print("HARNESS-ERROR setup: determinism self-test failed")
        return 2
    print("setup ok")
    return 0
